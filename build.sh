#!/bin/bash
# build.sh <variant> : out-of-tree build of /repo's *working tree* into /verif/build/<variant>
# variants: san | fuzz | fast | tsan | ivz / ivp (automatic variables zero- / pattern-initialised: C08's uninitialised-read differential) | cov (gcov instrumentation, measurement only: py/covreport.py) | off (guard off, gcc, with tests -> used by baseline_off_cmd)
set -e
V=${1:?variant}
REPO=${VERIF_REPO:-/repo}
ROOT=$(cd "$(dirname "$0")" && pwd)
B=$ROOT/build/$V
GUARD="-DBXDECAY0_VERIF"
case "$V" in
  san)  CXX=clang++; CC=clang; FL="-O1 -g -fno-omit-frame-pointer -fsanitize=address,undefined -fno-sanitize-recover=undefined -D_GLIBCXX_ASSERTIONS $GUARD"; TESTS=OFF;;
  fuzz) CXX=clang++; CC=clang; FL="-O1 -g -fno-omit-frame-pointer -fsanitize=fuzzer-no-link,address,undefined -fno-sanitize-recover=undefined -D_GLIBCXX_ASSERTIONS $GUARD"; TESTS=OFF;;
  fast) CXX=g++; CC=gcc; FL="-O2 -g $GUARD"; TESTS=OFF;;
  tsan) CXX=clang++; CC=clang; FL="-O1 -g -fno-omit-frame-pointer -fsanitize=thread $GUARD"; TESTS=OFF;;
  ivz)  CXX=clang++; CC=clang; FL="-O1 -g -ftrivial-auto-var-init=zero -enable-trivial-auto-var-init-zero-knowing-it-will-be-removed-from-clang $GUARD"; TESTS=OFF;;
  ivp)  CXX=clang++; CC=clang; FL="-O1 -g -ftrivial-auto-var-init=pattern $GUARD"; TESTS=OFF;;
  cov)  CXX=g++; CC=gcc; FL="-O0 -g --coverage $GUARD"; TESTS=OFF;;
  off)  CXX=g++; CC=gcc; FL="-O2 -g"; TESTS=ON;;
  *) echo "unknown variant $V" >&2; exit 2;;
esac
mkdir -p "$B"
(
  flock 9
  if [ ! -f "$B/build.ninja" ] || [ "$(cat $B/.repo 2>/dev/null)" != "$REPO" ]; then
    rm -rf "$B"/* ; 
    cmake -G Ninja -S "$REPO" -B "$B" -DCMAKE_BUILD_TYPE=None -DCMAKE_CXX_COMPILER=$CXX -DCMAKE_C_COMPILER=$CC \
      -DCMAKE_CXX_FLAGS="$FL" -DCMAKE_C_FLAGS="$FL" -DBUILD_TESTING=$TESTS -DCMAKE_CXX_STANDARD=11 > "$B/cmake.log" 2>&1 || { cat "$B/cmake.log"; exit 3; }
    echo "$REPO" > "$B/.repo"
  fi
  if [ "$TESTS" = ON ]; then
    ninja -C "$B" > "$B/ninja.log" 2>&1 || { tail -50 "$B/ninja.log"; exit 3; }
  else
    ninja -C "$B" BxDecay0 bxdecay0-run > "$B/ninja.log" 2>&1 || { tail -50 "$B/ninja.log"; exit 3; }
  fi
) 9>"$B.lock"
