// schemes.hpp -- oracle table for C05: published background name -> composition of the public per-nuclide
// scheme functions, written by hand from the reference's GENBBsub dispatch (chaining rule: a daughter decay is
// appended and time-shifted by its own decay time; Bi212/Bi214 append Po212/Po214 unless the first particle is
// an alpha) and from the README for the BxDecay0-only nuclides.  It does not look at genbbsub.cc.
#ifndef SCHEMES_HPP
#define SCHEMES_HPP
#include <functional>
#include <string>
#include <vector>
#include <bxdecay0/event.h>
#include <bxdecay0/i_random.h>
#include <bxdecay0/Ac228.h>
#include <bxdecay0/Am241.h>
#include <bxdecay0/Ar39.h>
#include <bxdecay0/Ar42.h>
#include <bxdecay0/As79.h>
#include <bxdecay0/Bi207.h>
#include <bxdecay0/Bi208.h>
#include <bxdecay0/Bi210.h>
#include <bxdecay0/Bi212.h>
#include <bxdecay0/Bi214.h>
#include <bxdecay0/C14.h>
#include <bxdecay0/Ca48.h>
#include <bxdecay0/Cd113.h>
#include <bxdecay0/Co60.h>
#include <bxdecay0/Cs136.h>
#include <bxdecay0/Cs137.h>
#include <bxdecay0/Eu147.h>
#include <bxdecay0/Eu152.h>
#include <bxdecay0/Eu154.h>
#include <bxdecay0/Gd146.h>
#include <bxdecay0/Hf182.h>
#include <bxdecay0/I126.h>
#include <bxdecay0/I133.h>
#include <bxdecay0/I134.h>
#include <bxdecay0/I135.h>
#include <bxdecay0/K40.h>
#include <bxdecay0/K42.h>
#include <bxdecay0/Kr81.h>
#include <bxdecay0/Kr85.h>
#include <bxdecay0/Mn54.h>
#include <bxdecay0/Na22.h>
#include <bxdecay0/Nb96.h>
#include <bxdecay0/P32.h>
#include <bxdecay0/Pa231.h>
#include <bxdecay0/Pa234m.h>
#include <bxdecay0/Pb210.h>
#include <bxdecay0/Pb211.h>
#include <bxdecay0/Pb212.h>
#include <bxdecay0/Pb214.h>
#include <bxdecay0/Po210.h>
#include <bxdecay0/Po212.h>
#include <bxdecay0/Po214.h>
#include <bxdecay0/Po218.h>
#include <bxdecay0/Ra226.h>
#include <bxdecay0/Ra228.h>
#include <bxdecay0/Rb87.h>
#include <bxdecay0/Rh106.h>
#include <bxdecay0/Rn222.h>
#include <bxdecay0/Sb125.h>
#include <bxdecay0/Sb126.h>
#include <bxdecay0/Sb133.h>
#include <bxdecay0/Sc48.h>
#include <bxdecay0/Sr90.h>
#include <bxdecay0/Ta180mB.h>
#include <bxdecay0/Ta180mEC.h>
#include <bxdecay0/Ta182.h>
#include <bxdecay0/Te133.h>
#include <bxdecay0/Te133m.h>
#include <bxdecay0/Te134.h>
#include <bxdecay0/Th230.h>
#include <bxdecay0/Th234.h>
#include <bxdecay0/Tl207.h>
#include <bxdecay0/Tl208.h>
#include <bxdecay0/U234.h>
#include <bxdecay0/U238.h>
#include <bxdecay0/Xe129m.h>
#include <bxdecay0/Xe131m.h>
#include <bxdecay0/Xe133.h>
#include <bxdecay0/Xe135.h>
#include <bxdecay0/Y88.h>
#include <bxdecay0/Y90.h>
#include <bxdecay0/Zn65.h>
#include <bxdecay0/Zr96.h>

namespace schemes {
typedef void (*Fn)(bxdecay0::i_random &, bxdecay0::event &, const double, double &);
struct Scheme
{
  std::string name; Fn first; Fn second; bool second_unless_alpha;
  // appends this nuclide's decay to ev (as the generator does: generator label and reference time are not part of it)
  void run(bxdecay0::i_random & r, bxdecay0::event & ev) const
  {
    double td = 0, td1 = 0;
    size_t n0 = ev.get_particles().size();
    first(r, ev, 0., td);
    if (second) {
      size_t np = ev.get_particles().size();
      bool do2 = true;
      if (second_unless_alpha && ev.get_particles().size() > n0 && ev.get_particles()[n0].is_alpha()) do2 = false;
      if (do2) { second(r, ev, 0., td1); ev.shift_particles_time(td1, (int)np); }
    }
  }
};
#define S1(n, f) {n, bxdecay0::f, nullptr, false}
inline const std::vector<Scheme> & table()
{
  static const std::vector<Scheme> t = {
    S1("Ac228", Ac228), S1("Am241", Am241), S1("Ar39", Ar39), S1("Ar42", Ar42), S1("As79+Se79m", As79), S1("Bi207+Pb207m", Bi207),
    S1("Bi208", Bi208), S1("Bi210", Bi210), {"Bi212+Po212", bxdecay0::Bi212, bxdecay0::Po212, true}, {"Bi214+Po214", bxdecay0::Bi214, bxdecay0::Po214, true},
    S1("C14", C14), {"Ca48+Sc48", bxdecay0::Ca48, bxdecay0::Sc48, false}, S1("Cd113", Cd113), S1("Co60", Co60), S1("Cs136", Cs136), S1("Cs137+Ba137m", Cs137),
    S1("Eu147", Eu147), S1("Eu152", Eu152), S1("Eu154", Eu154), S1("Gd146", Gd146), S1("Hf182", Hf182), S1("I126", I126), S1("I133", I133), S1("I134", I134),
    S1("I135", I135), S1("K40", K40), S1("K42", K42), S1("Kr81", Kr81), S1("Kr85", Kr85), S1("Mn54", Mn54), S1("Na22", Na22), S1("P32", P32), S1("Pa231", Pa231),
    S1("Pa234m", Pa234m), S1("Pb210", Pb210), S1("Pb211", Pb211), S1("Pb212", Pb212), S1("Pb214", Pb214), S1("Po210", Po210), S1("Po218", Po218), S1("Ra226", Ra226),
    S1("Ra228", Ra228), S1("Rb87", Rb87), S1("Rh106", Rh106), S1("Rn222", Rn222), S1("Sb125", Sb125), S1("Sb126", Sb126), S1("Sb133", Sb133), S1("Sr90", Sr90),
    S1("Ta180m-B-", Ta180mB), S1("Ta180m-EC", Ta180mEC), S1("Ta182", Ta182), S1("Te133", Te133), S1("Te133m", Te133m), S1("Te134", Te134), S1("Th230", Th230),
    S1("Th234", Th234), S1("Tl207", Tl207), S1("Tl208", Tl208), S1("U234", U234), S1("U238", U238), S1("Xe129m", Xe129m), S1("Xe131m", Xe131m), S1("Xe133", Xe133),
    S1("Xe135", Xe135), S1("Y88", Y88), S1("Y90", Y90), S1("Zn65", Zn65), {"Zr96+Nb96", bxdecay0::Zr96, bxdecay0::Nb96, false},
  };
  return t;
}
inline const Scheme * find(const std::string & n) { for (auto & s : table()) if (s.name == n) return &s; return nullptr; }
inline std::vector<std::string> extra_names() { return {}; }
} // namespace schemes
#endif
