// api_ref.cc -- C13 oracle: a small program that follows the README's API usage (decay0_generator + std_random over
// std::default_random_engine(seed)) and writes events in the documented ASCII record format.
//   api_ref out=<file> category=dbd|background nuclide=X [level=L mode=M emin=a emax=b] seed=S n=N [activity=A]
//           [mdl=1 mdl_particle=.. mdl_rank=.. mdl_phi=.. mdl_theta=.. mdl_aperture=..]
// prints "ACCEPTED toallevents=<v>" or "REFUSED <reason>"
#include <cmath>
#include <fstream>
#include <iostream>
#include <map>
#include <random>
#include <bxdecay0/decay0_generator.h>
#include <bxdecay0/mdl_event_op.h>
#include <bxdecay0/std_random.h>
#include <bxdecay0/bb_utils.h>
int main(int argc, char ** argv)
{
  std::map<std::string, std::string> kv;
  for (int i = 1; i < argc; i++) { std::string a = argv[i]; size_t e = a.find('='); if (e != std::string::npos) kv[a.substr(0, e)] = a.substr(e + 1); }
  static std::ofstream devnull("/dev/null"); std::cerr.rdbuf(devnull.rdbuf()); std::clog.rdbuf(devnull.rdbuf());
  try {
    unsigned int seed = (unsigned int)std::stoul(kv["seed"]); size_t n = std::stoul(kv["n"]);
    std::default_random_engine generator(seed);
    bxdecay0::std_random prng(generator);
    bxdecay0::decay0_generator decay0;
    // the tool publishes exactly the names of the resource lists
    if (kv["category"] == "dbd") {
      if (!bxdecay0::dbd_isotopes().count(kv["nuclide"])) { std::cout << "REFUSED unpublished dbd isotope\n"; return 0; }
      decay0.set_decay_category(bxdecay0::decay0_generator::DECAY_CATEGORY_DBD);
      decay0.set_decay_isotope(kv["nuclide"]);
      decay0.set_decay_dbd_level(std::stoi(kv["level"]));
      decay0.set_decay_dbd_mode((bxdecay0::dbd_mode_type)std::stoi(kv["mode"]));
      if (kv.count("emin") || kv.count("emax")) decay0.set_decay_dbd_esum_range(kv.count("emin") ? std::stod(kv["emin"]) : 0.0, kv.count("emax") ? std::stod(kv["emax"]) : 5000.0);
    } else if (kv["category"] == "background") {
      if (!bxdecay0::background_isotopes().count(kv["nuclide"])) { std::cout << "REFUSED unpublished background isotope\n"; return 0; }
      decay0.set_decay_category(bxdecay0::decay0_generator::DECAY_CATEGORY_BACKGROUND);
      decay0.set_decay_isotope(kv["nuclide"]);
    } else { std::cout << "REFUSED category\n"; return 0; }
    if (kv.count("mdl")) {
      auto op = std::make_shared<bxdecay0::momentum_direction_lock_event_op>();
      bxdecay0::momentum_direction_lock_event_op::config_type c;
      c.particle_label = kv["mdl_particle"]; c.target_particle_rank = std::stoi(kv["mdl_rank"]); c.cone_phi_degree = std::stod(kv["mdl_phi"]);
      c.cone_theta_degree = std::stod(kv["mdl_theta"]); c.cone_aperture_degree = std::stod(kv["mdl_aperture"]);
      op->set(c); decay0.add_operation(op);
    }
    decay0.initialize(prng);
    double activity = kv.count("activity") ? std::stod(kv["activity"]) : std::nan("");
    if (kv.count("activity") && !(activity > 0)) { std::cout << "REFUSED activity\n"; return 0; }
    std::exponential_distribution<> decay_timer(std::isnan(activity) ? 1.0 : activity);
    std::ofstream out(kv["out"].c_str()); out.precision(15);
    bxdecay0::event ev;
    for (size_t i = 0; i < n; i++) {
      decay0.shoot(prng, ev);
      double t = 0.0; if (!std::isnan(activity)) t = decay_timer(generator);
      ev.set_time(t);
      out << i << ' '; ev.store(out, bxdecay0::event::STORE_EVENT_TIME); out << '\n';
    }
    std::cout.precision(15); std::cout << "ACCEPTED toallevents=" << decay0.get_to_all_events() << "\n";
  } catch (std::exception & e) { std::cout << "REFUSED " << e.what() << "\n"; }
  return 0;
}
