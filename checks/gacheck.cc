// gacheck.cc -- C14 native part: loads one synthetic gA data set (written by the REAL python encoder, see py/c14.py)
// as nuclide "Test" / "Mo100" through BXDECAY0_DBD_GA_DATA_DIR and checks decoder + samplers.
//   gacheck --datadir D --expect expect.txt --pairs N --seed S      -> prints one JSON line
#include <cmath>
#include <iostream>
#include <sstream>
#include <unistd.h>
#include <bxdecay0/dbd_gA.h>
#include <bxdecay0/decay0_generator.h>
#include "../engine/vf.hpp"
using namespace vf;

struct Expect { double qbb, emin, estep; int n; std::vector<double> e1; std::vector<std::vector<double>> e2; std::vector<std::string> lines; };

static bool load_expect(const std::string & path, Expect & x)
{ // text: "qbb emin estep n" ; then n+1 lines of hex doubles (e1 cdf, then e2 rows); then n+1 raw encoded lines prefixed by "L "
  std::ifstream f(path); if (!f) return false; std::string l;
  std::getline(f, l); { std::istringstream in(l); std::string a, b, c; in >> a >> b >> c >> x.n; x.qbb = strtod(a.c_str(), nullptr); x.emin = strtod(b.c_str(), nullptr); x.estep = strtod(c.c_str(), nullptr); }
  for (int i = 0; i <= x.n; i++) { std::getline(f, l); std::istringstream in(l); std::vector<double> v; std::string w; while (in >> w) v.push_back(strtod(w.c_str(), nullptr)); if (i == 0) x.e1 = v; else x.e2.push_back(v); }
  while (std::getline(f, l)) if (l.compare(0, 2, "L ") == 0) x.lines.push_back(l.substr(2));
  return (int)x.lines.size() == x.n + 1;
}
static bool load_expect_header(const std::string & path, Expect & x)
{
  std::ifstream f(path); if (!f) return false; std::string l;
  std::getline(f, l); std::istringstream in(l); std::string a, b, c; in >> a >> b >> c >> x.n; x.qbb = strtod(a.c_str(), nullptr); x.emin = strtod(b.c_str(), nullptr); x.estep = strtod(c.c_str(), nullptr);
  return x.n >= 2;
}
static void emit(const struct Out & o);
static int nines_of(double v) { int k = 0; double b = 0.9; while (k < 16 && v >= b) { k++; b = 1.0 - std::pow(10.0, -(k + 1)); } return k; }

struct Out { bool ok = true; std::string cls, msg; long pairs = 0; int max_caret = 0; bool has_one = false; bool slow_rejection = false; };
static void fail(Out & o, const std::string & c, const std::string & m) { if (o.ok) { o.ok = false; o.cls = c; o.msg = m; } }

int main(int argc, char ** argv)
{
  Args a(argc, argv);
  static std::ofstream devnull("/dev/null"); std::cerr.rdbuf(devnull.rdbuf()); std::clog.rdbuf(devnull.rdbuf());
  Expect x; Out o;
  if (a.has("pdfonly")) {
    // data set whose end point lies inside the sampled triangle (zeros beyond it): only tab_pdf.data exists, only the rejection method applies
    if (!load_expect_header(a.s("expect"), x)) { printf("{\"ok\":false,\"cls\":\"harness\",\"msg\":\"cannot read expect file\"}\n"); return 2; }
    setenv("BXDECAY0_DBD_GA_DATA_DIR", a.s("datadir").c_str(), 1);
    uint64_t seed = a.i("seed", 1); long nshots = a.i("pairs", 10000);
    bxdecay0::dbd_gA h; h.set_nuclide("Test"); h.set_process(bxdecay0::dbd_gA::PROCESS_G0); h.set_shooting(bxdecay0::dbd_gA::SHOOTING_REJECTION);
    try { h.initialize(); } catch (std::exception & e) { fail(o, "load-throws", std::string("p.d.f. file written by the encoder (end point inside the table, zeros beyond it) is refused: ") + e.what()); }
    long budget = 3000000;
    for (long k = 0; k < nshots && o.ok; k++) {
      Tape t; t.seed = mix(seed, 11000 + k); TapeRandom ra(t, 0, 20000), rb(t, 0, 20000); double e1, e2, c12; bxdecay0::event ev;
      try { h.shoot_e1_e2(ra, e1, e2); h.shoot_cos_theta(ra, e1, e2, c12); h.shoot(rb, ev); } catch (TapeOverrun &) { o.slow_rejection = true; break; }
      budget -= (long)ra.pos; if (budget < 0) { if (k < 100) o.slow_rejection = true; break; }
      if (!(e1 >= 0 && e2 >= 0) || e1 + e2 > x.qbb * (1 + 1e-12)) { fail(o, "rejection-domain", "rejection method: e1=" + jnum(e1) + " e2=" + jnum(e2) + " sum " + jnum(e1 + e2) + " above the data set's maximum " + jnum(x.qbb)); break; }
      const auto & ps = ev.get_particles();
      if (ps.size() != 2 || !ps[0].is_electron() || !ps[1].is_electron()) { fail(o, "event-shape", "shoot() does not yield exactly two electrons"); break; }
      const double m = 0.51099906; auto kin = [&](const bxdecay0::particle & p) { double pp = p.get_p(); return std::sqrt(pp * pp + m * m) - m; };
      if (std::fabs(kin(ps[0]) - e1) > 1e-12 + 1e-9 * e1 || std::fabs(kin(ps[1]) - e2) > 1e-12 + 1e-9 * e2) { fail(o, "event-energies", "event kinetic energies differ from the sampled pair"); break; }
      o.pairs++;
    }
    emit(o); return o.ok ? 0 : 1;
  }
  if (!load_expect(a.s("expect"), x)) { printf("{\"ok\":false,\"cls\":\"harness\",\"msg\":\"cannot read expect file\"}\n"); return 2; }
  setenv("BXDECAY0_DBD_GA_DATA_DIR", a.s("datadir").c_str(), 1);
  uint64_t seed = a.i("seed", 1); long npairs = a.i("pairs", 10000);
  int n = x.n; std::vector<double> E(n); for (int i = 0; i < n; i++) E[i] = x.emin + i * ((x.emin + (n - 1) * x.estep - x.emin) / (n - 1));
  // ---- (1) decoder vs the encoder's input, (2) table validity
  std::vector<std::vector<double>> dec;
  for (int r = 0; r <= n && o.ok; r++) {
    std::vector<double> v; const std::vector<double> & want = r == 0 ? x.e1 : x.e2[r - 1];
    for (size_t k = 0; k < x.lines[r].size(); k++) if (x.lines[r][k] == '^') o.max_caret = std::max(o.max_caret, atoi(x.lines[r].c_str() + k + 1));
    if (x.lines[r].find("!1") != std::string::npos) o.has_one = true;
    try { bxdecay0::load_optimized_cdf_array(x.lines[r], v); } catch (std::exception & e) { fail(o, "decode-throws", std::string("load_optimized_cdf_array raised on an encoder line: ") + e.what()); break; }
    if (v.size() != want.size()) { fail(o, "decode-count", "decoded " + std::to_string(v.size()) + " values, encoder wrote " + std::to_string(want.size()) + " (row " + std::to_string(r) + ")"); break; }
    double prev = 0;
    for (size_t k = 0; k < v.size(); k++) {
      int k9 = nines_of(want[k]); double tol = 1e-5 * std::pow(10.0, -(k9 + 1)) + 2.5e-16; // 7 significant digits of the stored mantissa; one ulp at 1 ("!1")
      if (!(std::fabs(v[k] - want[k]) <= tol)) { fail(o, "decode-value", "row " + std::to_string(r) + " entry " + std::to_string(k) + ": decoded " + jnum(v[k]) + " encoded " + jnum(want[k]) + " (tolerance " + jnum(tol) + ")"); break; }
      if (!(v[k] >= prev) || !(v[k] >= 0) || !(v[k] <= 1)) { fail(o, "table-invalid", "row " + std::to_string(r) + " entry " + std::to_string(k) + " = " + jnum(v[k]) + " breaks monotonicity/[0,1]"); break; }
      prev = v[k];
    }
    if (o.ok && !v.empty() && v.back() != 1.0) fail(o, "table-invalid", "row " + std::to_string(r) + " does not end at 1");
    dec.push_back(v);
  }
  // ---- (3) inverse-transform sampler
  if (o.ok) {
    bxdecay0::dbd_gA g; 
    try { g.set_nuclide("Test"); g.set_process(bxdecay0::dbd_gA::PROCESS_G0); g.set_shooting(bxdecay0::dbd_gA::SHOOTING_INVERSE_TRANSFORM_METHOD); g.initialize(); }
    catch (std::exception & e) { fail(o, "load-throws", std::string("the library refuses the encoder's o.c.d.f. file: ") + e.what()); }
    if (o.ok) {
      const std::vector<double> & c1 = dec[0];
      auto cell = [](const std::vector<double> & c, double u) { size_t lo = 0, hi = c.size(); while (lo < hi) { size_t m = (lo + hi) / 2; if (u <= c[m]) hi = m; else lo = m + 1; } return lo; }; // first index with u <= c[i]
      Rng r(mix(seed, 0xC14));
      for (long p = 0; p < npairs && o.ok; p++) {
        double u1, u2; int kind = (int)(p % 5);
        if (kind == 0) { u1 = clampdev(r.unit()); u2 = clampdev(r.unit()); }
        else if (kind == 1) { u1 = clampdev((p / 5 % 101) / 100.0); u2 = clampdev((p / 505 % 101) / 100.0); }                      // grid
        else if (kind == 2) { u1 = clampdev(1 - std::pow(10.0, -16 * r.unit())); u2 = clampdev(std::pow(10.0, -12 * r.unit())); }   // tails
        else { // straddle a table entry
          const std::vector<double> & row = kind == 3 ? c1 : dec[1 + r.range(0, n - 1)];
          double t = row[r.range(0, (int)row.size() - 1)]; double d = std::pow(10.0, -r.uniform(3, 16)) * (r.chance(0.5) ? 1 : -1);
          if (kind == 3) { u1 = clampdev(t + d); u2 = clampdev(r.unit()); } else { u1 = clampdev(r.unit()); u2 = clampdev(t + d); }
        }
        Tape t1; t1.v = {u1, u2}; t1.seed = p; TapeRandom rr(t1, 0, 1000); double e1, e2;
        try { g.shoot_e1_e2(rr, e1, e2); } catch (std::exception & e) { fail(o, "sample-throws", "shoot_e1_e2(" + jnum(u1) + "," + jnum(u2) + ") raised: " + e.what()); break; }
        o.pairs++;
        if (rr.pos != 2) { fail(o, "sample-deviates", "inverse-transform sampling consumed " + std::to_string(rr.pos) + " deviates"); break; }
        if (!(e1 >= 0 && e2 >= 0) || !std::isfinite(e1 + e2)) { fail(o, "sample-negative", "u=(" + jnum(u1) + "," + jnum(u2) + ") -> e1=" + jnum(e1) + " e2=" + jnum(e2)); break; }
        if (e1 + e2 > x.qbb * (1 + 1e-12)) { fail(o, "sample-above-max", "e1+e2=" + jnum(e1 + e2) + " above the data set's maximum " + jnum(x.qbb)); break; }
        size_t i = cell(c1, u1); if (i >= c1.size()) { fail(o, "sample-cell", "no E1 cell for u1"); break; }
        double lo1 = i ? E[i - 1] : 0.0, hi1 = E[i];
        if (e1 < lo1 - 1e-12 || e1 > hi1 + 1e-12) { fail(o, "sample-cell", "u1=" + jnum(u1) + " selects E1 cell " + std::to_string(i) + " [" + jnum(lo1) + "," + jnum(hi1) + "] but e1=" + jnum(e1)); break; }
        const std::vector<double> & c2 = dec[1 + i]; size_t j = cell(c2, u2); if (j >= c2.size()) { fail(o, "sample-cell", "no E2 cell for u2"); break; }
        double lo2 = j ? E[j - 1] : 0.0, hi2 = E[j];
        if (e2 < lo2 - 1e-12 || e2 > hi2 + 1e-12) { fail(o, "sample-cell", "u2=" + jnum(u2) + " selects E2 cell " + std::to_string(j) + " of row " + std::to_string(i) + " [" + jnum(lo2) + "," + jnum(hi2) + "] but e2=" + jnum(e2)); break; }
        // monotone in each deviate: nudge u1 (and u2 within the same row) upwards
        double du = std::pow(10.0, -r.uniform(2, 9));
        { Tape t2; t2.v = {clampdev(u1 + du), u2}; TapeRandom r2(t2, 0, 1000); double f1, f2; try { g.shoot_e1_e2(r2, f1, f2); if (f1 < e1 - 1e-12) { fail(o, "sample-not-monotone", "e1 decreases when u1 grows: u1=" + jnum(u1) + "->" + jnum(t2.v[0]) + " e1=" + jnum(e1) + "->" + jnum(f1)); break; } } catch (std::exception &) {} }
        { Tape t2; t2.v = {u1, clampdev(u2 + du)}; TapeRandom r2(t2, 0, 1000); double f1, f2; try { g.shoot_e1_e2(r2, f1, f2); if (f2 < e2 - 1e-12 || f1 != e1) { fail(o, "sample-not-monotone", "e2 decreases (or e1 changes) when only u2 grows: e2=" + jnum(e2) + "->" + jnum(f2)); break; } } catch (std::exception &) {} }
      }
    }
    // ---- (4) shoot(): two electrons with exactly the sampled kinetic energies and opening angle
    if (o.ok) {
      for (int method = 0; method < 2 && o.ok; method++) {
        bxdecay0::dbd_gA h; h.set_nuclide("Test"); h.set_process(bxdecay0::dbd_gA::PROCESS_G0);
        h.set_shooting(method ? bxdecay0::dbd_gA::SHOOTING_REJECTION : bxdecay0::dbd_gA::SHOOTING_INVERSE_TRANSFORM_METHOD);
        try { h.initialize(); } catch (std::exception & e) { fail(o, "load-throws", std::string(method ? "p.d.f." : "o.c.d.f.") + " file written by the encoder is refused: " + e.what()); break; }
        for (int k = 0; k < 200 && o.ok; k++) {
          Tape t; t.seed = mix(seed, 7000 + k + method * 1000); TapeRandom ra(t, 0, 100000), rb(t, 0, 100000);
          double e1, e2, c12; bxdecay0::event ev;
          try { h.shoot_e1_e2(ra, e1, e2); h.shoot_cos_theta(ra, e1, e2, c12); h.shoot(rb, ev); } catch (TapeOverrun &) {
            // rejection sampling of a very peaked table is legitimately slow (efficiency = mean/max of the p.d.f.): not a C14 matter
            if (method) { o.slow_rejection = true; break; }
            fail(o, "sample-unbounded", "inverse-transform sampler needs more than 100000 deviates"); break; }
          if (!(e1 >= 0 && e2 >= 0) || e1 + e2 > x.qbb * (1 + 1e-12)) { fail(o, method ? "rejection-domain" : "sample-above-max", "e1=" + jnum(e1) + " e2=" + jnum(e2) + " outside the kinematic domain (Q=" + jnum(x.qbb) + ")"); break; }
          const auto & ps = ev.get_particles();
          if (ps.size() != 2 || !ps[0].is_electron() || !ps[1].is_electron()) { fail(o, "event-shape", "shoot() does not yield exactly two electrons"); break; }
          const double m = 0.51099906; auto kin = [&](const bxdecay0::particle & p) { double pp = p.get_p(); return std::sqrt(pp * pp + m * m) - m; };
          if (std::fabs(kin(ps[0]) - e1) > 1e-12 + 1e-9 * e1 || std::fabs(kin(ps[1]) - e2) > 1e-12 + 1e-9 * e2) { fail(o, "event-energies", "event kinetic energies (" + jnum(kin(ps[0])) + "," + jnum(kin(ps[1])) + ") differ from the sampled (" + jnum(e1) + "," + jnum(e2) + ")"); break; }
          double c = (ps[0].get_px() * ps[1].get_px() + ps[0].get_py() * ps[1].get_py() + ps[0].get_pz() * ps[1].get_pz()) / (ps[0].get_p() * ps[1].get_p());
          if (ps[0].get_p() > 1e-9 && ps[1].get_p() > 1e-9 && std::fabs(c - c12) > 1e-9) { fail(o, "event-angle", "cos of the opening angle " + jnum(c) + " differs from the sampled " + jnum(c12)); break; }
          if (ev.get_time() != 0.0 || ps[0].get_time() != 0.0 || ps[1].get_time() != 0.0) { fail(o, "event-time", "gA event times are not 0"); break; }
          o.pairs++;
        }
      }
    }
    // ---- through decay0_generator (mode 21 on Mo100, same files installed under Mo100/g0): energy budget (C03) and acceptance (C06)
    if (o.ok && a.has("mo100")) {
      bxdecay0::decay0_generator gen; gen.set_decay_category(bxdecay0::decay0_generator::DECAY_CATEGORY_DBD); gen.set_decay_isotope("Mo100"); gen.set_decay_dbd_level(0); gen.set_decay_dbd_mode(bxdecay0::DBDMODE_21);
      Tape it; it.seed = 5; TapeRandom ri(it);
      try { gen.initialize(ri); } catch (std::exception & e) { fail(o, "generator-refuses-gA", std::string("decay0_generator refuses mode 21 for Mo100 level 0 with a valid data set: ") + e.what()); }
      for (int k = 0; k < 100 && o.ok; k++) {
        Tape t; t.seed = mix(seed, 9000 + k); TapeRandom r(t, 0, 100000); bxdecay0::event ev; gen.shoot(r, ev);
        double sum = 0; for (auto & p : ev.get_particles()) { double pp = p.get_p(); sum += std::sqrt(pp * pp + 0.51099906 * 0.51099906) - 0.51099906; }
        if (ev.get_particles().size() != 2 || sum > x.qbb * (1 + 1e-12) || !(ev.get_time() == 0.0)) { fail(o, "generator-gA-event", "mode 21 event: " + std::to_string(ev.get_particles().size()) + " particles, kinetic sum " + jnum(sum) + " (Q=" + jnum(x.qbb) + ")"); break; }
        o.pairs++;
      }
    }
  }
  emit(o);
  return o.ok ? 0 : 1;
}
static void emit(const Out & o)
{
  printf("{\"ok\":%s,\"cls\":%s,\"msg\":%s,\"pairs\":%ld,\"max_caret\":%d,\"has_one\":%s,\"slow_rejection\":%s}\n", o.ok ? "true" : "false", jstr(o.cls).c_str(), jstr(o.msg).c_str(), o.pairs, o.max_caret, o.has_one ? "true" : "false", o.slow_rejection ? "true" : "false");
}
