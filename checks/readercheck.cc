// readercheck.cc -- C11: stored events read back unchanged; the reader delivers exactly the asked window.
// rapidcheck generates (event stream, partition into files incl. empty ones, (start,max), interleaving of
// has_next_event / load_next_event); oracle = list model + textual 15-digit round trip.
#include <cmath>
#include <iostream>
#include <memory>
#include <sstream>
#include <unistd.h>
#include <sys/stat.h>
#include <rapidcheck.h>

#include <bxdecay0/event.h>
#include <bxdecay0/event_reader.h>
#include "../engine/vf.hpp"

using namespace vf;

struct PSpec { int code; double t, px, py, pz; };
struct ESpec { std::string label; double time; std::vector<PSpec> parts; };
struct Case
{
  std::vector<ESpec> stream; std::vector<int> cuts; /* cut positions (event index) ascending, may repeat => empty files */ std::vector<int> ws_files; /* files that get only whitespace */
  int start = 0, max = 0; std::vector<int> ops; /* 0 = has_next, 1 = load */ bool zero_time = false;
  // how the reader object under test comes to its configuration: 0 = constructor with the configuration; 1 = default constructor + set_configuration;
  // 2 = a USED object: first configured with another window of the same files (pre_start, pre_max), pre_reads calls made on it, then
  // reset_configuration() + set_configuration(the window under test) - it must behave like a new reader
  int how = 0, pre_start = 0, pre_max = 0, pre_reads = 0;
  // files whose lines end in CR LF (a file that went through a Windows tool): the reader parses tokens separated by white space, so the
  // line terminator is layout, not content - the same events must come back
  std::vector<int> crlf_files;
};

static std::string fmt15(double x) { std::ostringstream o; o.precision(15); o << x; return o.str(); }

// the documented writer is event::store itself (it sets the 15-digit precision): half of the records go through a stream whose precision the
// caller did not touch (as the shipped examples do), half through one prepared like bxdecay0-run's
static std::string record_text(const ESpec & e, int id)
{
  bxdecay0::event ev; ev.set_generator(e.label); ev.set_time(e.time);
  for (auto & p : e.parts) { bxdecay0::particle q; q.set_code((bxdecay0::particle_code)p.code); q.set_time(p.t); q.set_momentum(p.px, p.py, p.pz); ev.add_particle(q); }
  std::ostringstream out; if (id % 2 == 0) out.precision(15);
  out << id << ' '; ev.store(out, bxdecay0::event::STORE_EVENT_TIME); out << '\n';
  return out.str();
}
// independent oracle: the loaded event against the ORIGINAL values, field by field, at 15 significant digits (own formatter)
static bool same_as(const bxdecay0::event & ev, const ESpec & e, bool zero_time, std::string & why)
{
  if (ev.get_generator() != e.label) { why = "generator label '" + ev.get_generator() + "' vs '" + e.label + "'"; return false; }
  double t = zero_time ? 0.0 : e.time;
  auto eq15 = [](double got, double want) { return got == want || fmt15(got) == fmt15(want); };   // numerically equal (so -0 and 0 agree) or equal at 15 significant digits
  if (!eq15(ev.get_time(), t)) { why = "event time " + fmt15(ev.get_time()) + " vs " + fmt15(t) + " written"; return false; }
  const auto & ps = ev.get_particles();
  if (ps.size() != e.parts.size()) { why = "particle count " + std::to_string(ps.size()) + " vs " + std::to_string(e.parts.size()); return false; }
  for (size_t i = 0; i < ps.size(); i++) {
    if ((int)ps[i].get_code() != e.parts[i].code) { why = "species of particle " + std::to_string(i); return false; }
    double got[4] = {ps[i].get_time(), ps[i].get_px(), ps[i].get_py(), ps[i].get_pz()}, want[4] = {e.parts[i].t, e.parts[i].px, e.parts[i].py, e.parts[i].pz};
    static const char * fn[] = {"time", "px", "py", "pz"};
    for (int k = 0; k < 4; k++) if (!eq15(got[k], want[k])) { why = std::string(fn[k]) + " of particle " + std::to_string(i) + ": " + fmt15(got[k]) + " read back, " + fmt15(want[k]) + " written"; return false; }
  }
  return true;
}

static std::string case_json(const Case & c)
{
  std::string o = "{\"stream\":[";
  for (size_t i = 0; i < c.stream.size(); i++) {
    if (i) o += ","; o += "{\"label\":" + jstr(c.stream[i].label) + ",\"time\":" + jstr(hexd(c.stream[i].time)) + ",\"parts\":[";
    for (size_t k = 0; k < c.stream[i].parts.size(); k++) { auto & p = c.stream[i].parts[k]; if (k) o += ","; o += "[" + std::to_string(p.code) + "," + jstr(hexd(p.t)) + "," + jstr(hexd(p.px)) + "," + jstr(hexd(p.py)) + "," + jstr(hexd(p.pz)) + "]"; }
    o += "]}";
  }
  auto ivec = [](const std::vector<int> & v) { std::string s = "["; for (size_t i = 0; i < v.size(); i++) { if (i) s += ","; s += std::to_string(v[i]); } return s + "]"; };
  o += "],\"cuts\":" + ivec(c.cuts) + ",\"ws_files\":" + ivec(c.ws_files) + ",\"start\":" + std::to_string(c.start) + ",\"max\":" + std::to_string(c.max) + ",\"ops\":" + ivec(c.ops) + ",\"zero_time\":" + (c.zero_time ? "true" : "false") + ",\"how\":" + std::to_string(c.how) + ",\"pre_start\":" + std::to_string(c.pre_start) + ",\"pre_max\":" + std::to_string(c.pre_max) + ",\"pre_reads\":" + std::to_string(c.pre_reads) + ",\"crlf_files\":" + ivec(c.crlf_files) + "}";
  return o;
}
static Case case_from(const JV & j)
{
  Case c;
  for (auto & e : j.at("stream").arr) { ESpec s; s.label = e.s("label"); s.time = strtod(e.s("time").c_str(), nullptr); for (auto & p : e.at("parts").arr) s.parts.push_back({(int)p.arr[0].num, strtod(p.arr[1].str.c_str(), nullptr), strtod(p.arr[2].str.c_str(), nullptr), strtod(p.arr[3].str.c_str(), nullptr), strtod(p.arr[4].str.c_str(), nullptr)}); c.stream.push_back(s); }
  for (auto & e : j.at("cuts").arr) c.cuts.push_back((int)e.num);
  for (auto & e : j.at("ws_files").arr) c.ws_files.push_back((int)e.num);
  for (auto & e : j.at("ops").arr) c.ops.push_back((int)e.num);
  c.start = (int)j.n("start", 0); c.max = (int)j.n("max", 0); c.zero_time = j.has("zero_time") && j.at("zero_time").b;
  c.how = (int)j.n("how", 0); c.pre_start = (int)j.n("pre_start", 0); c.pre_max = (int)j.n("pre_max", 0); c.pre_reads = (int)j.n("pre_reads", 0);
  if (j.has("crlf_files")) for (auto & e : j.at("crlf_files").arr) c.crlf_files.push_back((int)e.num);
  return c;
}

struct Res { bool ok = true; std::string cls, msg; std::string shape; bool nontrivial = false; };

static Res run_case(const Case & c, const std::string & dir)
{
  Res r; auto fail = [&](const std::string & cls, const std::string & m) { if (r.ok) { r.ok = false; r.cls = cls; r.msg = m; } return r; };
  int n = (int)c.stream.size();
  // ---- write files
  std::vector<int> cuts = c.cuts; for (auto & x : cuts) x = std::max(0, std::min(n, x)); std::sort(cuts.begin(), cuts.end());
  std::vector<std::pair<int, int>> ranges; int prev = 0; for (int x : cuts) { ranges.push_back({prev, x}); prev = x; } ranges.push_back({prev, n});
  std::vector<std::string> files; int nonempty = 0; bool boundary_inside = false;
  for (size_t f = 0; f < ranges.size(); f++) {
    std::string path = dir + "/f" + std::to_string(f) + ".d0t"; std::ofstream out(path);
    bool ws = std::find(c.ws_files.begin(), c.ws_files.end(), (int)f) != c.ws_files.end();
    if (ranges[f].first == ranges[f].second && ws) out << "  \n\t\n \n";
    bool crlf = std::find(c.crlf_files.begin(), c.crlf_files.end(), (int)f) != c.crlf_files.end();
    for (int i = ranges[f].first; i < ranges[f].second; i++) {
      std::string rec = record_text(c.stream[i], i);
      if (crlf) { std::string w; for (char ch : rec) { if (ch == '\n') w += '\r'; w += ch; } rec = w; }
      out << rec;
    }
    if (ranges[f].second > ranges[f].first) nonempty++;
    files.push_back(path);
  }
  int lo = std::min(c.start, n), hi = c.max > 0 ? std::min(n, c.start + c.max) : n; if (hi < lo) hi = lo;
  for (auto & rg : ranges) if (rg.first < rg.second) { if ((lo > rg.first && lo < rg.second) || (hi > rg.first && hi < rg.second)) boundary_inside = true; }
  r.nontrivial = nonempty >= 2 && boundary_inside;
  r.shape = "files" + std::to_string(std::min<size_t>(ranges.size(), 6)) + "/empty" + std::to_string(std::min<size_t>(ranges.size() - nonempty, 3)) + "/" + (c.start == 0 ? "s0" : (c.start >= n ? "sBeyond" : "sIn")) + "/" + (c.max == 0 ? "m0" : (c.start + c.max >= n ? "mBeyond" : "mIn"));
  // ---- drive the reader
  bxdecay0::event_reader::config_type cfg; cfg.event_files = files; cfg.start_event = c.start; cfg.max_nb_events = c.max; cfg.zero_event_time = c.zero_time;
  std::unique_ptr<bxdecay0::event_reader> rd;
  try {
    if (c.how == 0) rd.reset(new bxdecay0::event_reader(cfg, 0));
    else {
      rd.reset(new bxdecay0::event_reader(0));
      if (c.how == 2) {
        bxdecay0::event_reader::config_type pre = cfg; pre.start_event = c.pre_start; pre.max_nb_events = c.pre_max; pre.zero_event_time = !c.zero_time;
        rd->set_configuration(pre);
        try { for (int k = 0; k < c.pre_reads; k++) { if (!rd->has_next_event()) break; bxdecay0::event ev; if (k % 3 != 2) rd->load_next_event(ev); } } catch (std::exception &) {}   // the earlier use is not judged here
        rd->reset_configuration();
        if (rd->is_configured()) return fail("reset-keeps-configured", "is_configured() is still true after reset_configuration()");
      }
      if (c.how == 3) { // a configuration the reader cannot apply (white-space-only file, then a missing file) must be refused and leave the object clean
        std::string ws = dir + "/ws-only.d0t"; { std::ofstream o(ws); o << "  \n\n"; }
        bxdecay0::event_reader::config_type bad = cfg; bad.event_files = {ws, dir + "/does-not-exist.d0t"};
        bool refused = false; try { rd->set_configuration(bad); } catch (std::exception &) { refused = true; }
        if (!refused || rd->is_configured()) return fail("missing-file-accepted", "a configuration naming a missing file was accepted");
      }
      rd->set_configuration(cfg);
    }
  } catch (std::exception & e) { return fail(c.how == 3 ? "configure-throws-after-failed-configuration" : "configure-throws", std::string("set_configuration raised: ") + e.what()); }
  if (!rd->is_configured()) return fail("not-configured", "is_configured() is false after the configuration was set");
  r.shape += c.how == 0 ? "/ctor" : (c.how == 1 ? "/set" : (c.how == 2 ? "/reused" : "/after-refused-config"));
  if (!c.crlf_files.empty()) r.shape += "/crlf";
  int delivered = 0, expect_total = hi - lo;
  std::vector<int> ops = c.ops; // then drain: H L H L ... until model says done, plus two extra has_next
  for (int k = 0; k < 2 * (expect_total + 2); k++) ops.push_back(k % 2);
  for (size_t k = 0; k < ops.size(); k++) {
    int remaining = expect_total - delivered;
    if (ops[k] == 0) {
      bool h;
      try { h = rd->has_next_event(); } catch (std::exception & e) { return fail("has_next-throws", std::string("has_next_event raised: ") + e.what()); }
      if (h && remaining == 0) {
        // announced although the window holds no further event: loading must then fail -> property violated either way
        bxdecay0::event ev; bool threw = false; std::string what;
        try { rd->load_next_event(ev); } catch (std::exception & e) { threw = true; what = e.what(); }
        if (threw) return fail("announced-but-load-fails", "has_next_event()==true after " + std::to_string(delivered) + " of " + std::to_string(expect_total) + " window events (start=" + std::to_string(c.start) + ", max=" + std::to_string(c.max) + ", stream=" + std::to_string(n) + "), then load_next_event raised: " + what);
        return fail("delivers-outside-window", "reader delivered an event beyond the window [" + std::to_string(lo) + "," + std::to_string(hi) + ")");
      }
      if (!h && remaining > 0) return fail("not-announced", "has_next_event()==false although " + std::to_string(remaining) + " window events remain (delivered " + std::to_string(delivered) + ")");
    } else {
      if (remaining == 0) continue; // loading past the window is not specified
      bxdecay0::event ev;
      try { rd->load_next_event(ev); } catch (std::exception & e) { return fail("load-throws", "load_next_event raised '" + std::string(e.what()) + "' although " + std::to_string(remaining) + " window events remain"); }
      const ESpec & want = c.stream[lo + delivered];
      std::string why;
      if (!same_as(ev, want, c.zero_time, why)) {
        // which event did we get?
        int which = -1; std::string w2; for (int i = 0; i < n; i++) if (same_as(ev, c.stream[i], c.zero_time, w2)) { which = i; break; }
        return fail(which >= 0 ? "wrong-event" : "content-differs", which >= 0 ? "delivery #" + std::to_string(delivered) + " is stream event " + std::to_string(which) + ", expected " + std::to_string(lo + delivered) : "event " + std::to_string(lo + delivered) + " read back differs at 15 significant digits: " + why);
      }
      delivered++;
      if (rd->get_loaded_event_counter() != delivered) return fail("counter", "get_loaded_event_counter()=" + std::to_string(rd->get_loaded_event_counter()) + " after " + std::to_string(delivered) + " deliveries");
    }
  }
  if (delivered != expect_total) return fail("short", "delivered " + std::to_string(delivered) + " of " + std::to_string(expect_total));
  // the window is exhausted and the reader said so: "exactly the events start .. start+max-1" also means that a caller who loads once more gets
  // nothing (the reader raises an error) - never an event from beyond the window
  {
    bxdecay0::event extra; bool threw = false;
    try { rd->load_next_event(extra); } catch (std::exception &) { threw = true; }
    if (!threw && !extra.get_particles().empty()) return fail("delivers-outside-window", "load_next_event() after the window [" + std::to_string(lo) + "," + std::to_string(hi) + ") was exhausted (has_next_event() == false) delivered one more event with " + std::to_string(extra.get_particles().size()) + " particles, generator '" + extra.get_generator() + "'");
    if (!threw) r.shape += "/extra-load-returned-empty";
  }
  return r;
}

// ---- generators
static rc::Gen<double> genFloat()
{
  return rc::gen::apply([](int kind, int mant, int ex, double u, bool neg) {
    double x;
    switch (kind) {
    case 0: x = mant / 1000.0; break;                                   // exact decimals
    case 1: x = u; break;                                               // 17-digit values
    case 2: x = mant * std::pow(10.0, ex); break;                       // tiny / huge magnitudes
    case 3: x = 0.0; break;                                             // zero / negative zero
    case 4: x = 0.1 * mant + 1e-15 * ex; break;                         // values straddling the 15-digit rounding
    default: x = std::ldexp(u, ex % 40); break;
    }
    return neg ? -x : x;
  }, rc::gen::resize(100, rc::gen::inRange(0, 6)), rc::gen::resize(100, rc::gen::inRange(0, 100000)), rc::gen::resize(100, rc::gen::inRange(-300, 300)),
     rc::gen::map(rc::gen::arbitrary<uint64_t>(), [](uint64_t h) { return u01(h) * 10.0; }), rc::gen::arbitrary<bool>());
}

int main(int argc, char ** argv)
{
  Args a(argc, argv);
  Report rep; rep.prop = "C11"; Known known; if (a.has("known")) known.load(a.s("known"));
  std::string replaydir = a.s("replaydir", "replay");
  int out_fd = dup(1); silence_stdio(true, false);
  static std::ofstream devnull("/dev/null"); if (!a.has("verbose")) { std::cerr.rdbuf(devnull.rdbuf()); std::clog.rdbuf(devnull.rdbuf()); }
  FILE * res = fdopen(out_fd, "w");
  int shard = a.i("shard", 0); long long cases = a.i("cases", 300); uint64_t seed = a.i("seed", 1);
  std::string dir = a.s("workdir", "/dev/shm") + "/vf-c11-" + std::to_string(getpid()); mkdir(dir.c_str(), 0700);
  if (a.has("replay")) {
    JV j = jload(a.s("replay")); Case c = case_from(j.at("case")); Res r = run_case(c, dir);
    dprintf(out_fd, r.ok ? "REPLAY-PASS\n" : "REPLAY-FAIL class=%s %s\n", r.cls.c_str(), r.msg.c_str());
    std::string cmd = "rm -rf " + dir; if (system(cmd.c_str())) {} return r.ok ? 0 : 1;
  }
  try {
    std::string params = "seed=" + std::to_string(seed * 16 + shard + 1) + " max_success=" + std::to_string(cases) + " max_size=100";
    setenv("RC_PARAMS", params.c_str(), 1);
    static const std::vector<std::string> labels = {"Co60", "Bi214+Po214", "Mo100", "Ta180m-B-", "x", "a_b.c", "K40", "generator-with-a-long-name_0123456789", "#1", "@status"};
    auto genPart = rc::gen::apply([](int code, double t, double x, double y, double z) { static const int codes[] = {1, 2, 3, 47}; return PSpec{codes[code], std::fabs(t), x, y, z}; },
                                  rc::gen::resize(100, rc::gen::inRange(0, 4)), genFloat(), genFloat(), genFloat(), genFloat());
    auto genEvent = rc::gen::apply([](int li, double t, std::vector<PSpec> ps) { ESpec e; e.label = labels[li]; e.time = std::fabs(t); if (ps.size() > 12) ps.resize(12); e.parts = ps; return e; },
                                   rc::gen::resize(100, rc::gen::inRange(0, (int)labels.size())), genFloat(), rc::gen::resize(12, rc::gen::container<std::vector<PSpec>>(genPart)));
    Case failing; Res fres;
    bool okrc = rc::check("reader delivers exactly the window, unchanged", [&]() {
      Case c;
      c.stream = *rc::gen::resize(40, rc::gen::container<std::vector<ESpec>>(genEvent));
      int n = (int)c.stream.size();
      int nf = *rc::gen::resize(100, rc::gen::inRange(0, 6));
      for (int i = 0; i < nf; i++) c.cuts.push_back(*rc::gen::resize(100, rc::gen::inRange(0, n + 1)));
      c.ws_files = *rc::gen::resize(4, rc::gen::container<std::vector<int>>(rc::gen::resize(100, rc::gen::inRange(0, 7))));
      int sk = *rc::gen::resize(100, rc::gen::inRange(0, 5));
      c.start = sk == 0 ? 0 : (sk == 1 ? n : (sk == 2 ? n + *rc::gen::resize(100, rc::gen::inRange(1, 4)) : *rc::gen::resize(100, rc::gen::inRange(0, n + 1))));
      int mk = *rc::gen::resize(100, rc::gen::inRange(0, 4));
      c.max = mk == 0 ? 0 : (mk == 1 ? std::max(0, n - c.start) : *rc::gen::resize(100, rc::gen::inRange(0, n + 3)));
      c.ops = *rc::gen::resize(30, rc::gen::container<std::vector<int>>(rc::gen::resize(100, rc::gen::inRange(0, 2))));
      c.zero_time = *rc::gen::resize(100, rc::gen::inRange(0, 5)) == 0;
      c.how = *rc::gen::resize(100, rc::gen::inRange(0, 4));
      if (*rc::gen::resize(100, rc::gen::inRange(0, 4)) == 0) c.crlf_files = *rc::gen::resize(4, rc::gen::container<std::vector<int>>(rc::gen::resize(100, rc::gen::inRange(0, 7))));
      if (c.how == 2) { c.pre_start = *rc::gen::resize(100, rc::gen::inRange(0, n + 2)); c.pre_max = *rc::gen::resize(100, rc::gen::inRange(0, n + 2)); c.pre_reads = *rc::gen::resize(100, rc::gen::inRange(0, n + 3)); }
      Res r = run_case(c, dir);
      rep.evaluations++;
      if (r.ok) { rep.label(r.shape); if (r.nontrivial) rep.nt(r.shape + "|" + std::to_string(std::min(n, 8))); }
      if (r.ok && rep.samples.size() < 3 && r.nontrivial && n <= 4) rep.sample(case_json(c));
      if (!r.ok) { failing = c; fres = r; }
      RC_ASSERT(r.ok);
    });
    if (!okrc && !fres.ok) {
      std::string sig = "C11|" + fres.cls;
      std::string kid = known.match("C11", sig);
      if (!kid.empty()) rep.known[kid]++;
      else {
        std::string path = replaydir + "/C11-" + hash_name(sig + case_json(failing)) + ".json";
        std::ofstream(path) << "{\"property\":\"C11\",\"case\":" << case_json(failing) << ",\"sig\":" << jstr(sig) << ",\"msg\":" << jstr(fres.msg) << "}\n";
        rep.failures.push_back({sig, fres.msg, path});
      }
    }
  } catch (std::exception & e) { fprintf(res, "HARNESS-ERROR %s\n", e.what()); fflush(res); return 2; }
  std::string cmd = "rm -rf " + dir; if (system(cmd.c_str())) {}
  rep.write(a.s("out", "report.json"));
  fprintf(res, "done evaluations=%llu failures=%zu\n", (unsigned long long)rep.evaluations, rep.failures.size()); fflush(res);
  return 0;
}
