// refdiff.cc -- C01 / C02: differential check of the C++ port against the Decay0
// 2020-04-20 Fortran reference, draw for draw, from the same deviate tape.
//
//   refdiff --prop C01|C02 --seed S --shard i --nshards n --cases N --out report.json
//           [--known file] [--replaydir dir] [--replay file] [--evts M] [--grid full|strat]
#include <cmath>
#include <iostream>
#include <memory>
#include <unistd.h>

#include <bxdecay0/bb.h>
#include <bxdecay0/event.h>
#include <bxdecay0/genbbsub.h>

#include "../engine/vf.hpp"
#include "../engine/redzone.hpp"
#include "../ref/refshim.hpp"
#include <bxdecay0/i_random.h>
#include "refdict.inc"
#include "reflow.inc"
#include "catalog.hpp"
namespace catalog {
inline int dbd_max_level(const std::string & n) { auto it = REF_DBD.find(n); return it == REF_DBD.end() ? 0 : (int)it->second.levelE.size() - 1; }
inline double dbd_q_nominal(const std::string & n)
{ // nominal available energy (MeV) used only to place windows
  auto it = REF_DBD.find(n); if (it == REF_DBD.end()) return 0; const RefDbd & d = it->second;
  return d.Z >= 0 ? d.Q : d.Q - 4 * 0.51099906;
}
inline double dbd_level_energy_nominal(const std::string & n, int lev)
{ auto it = REF_DBD.find(n); if (it == REF_DBD.end() || lev >= (int)it->second.levelE.size()) return 0; return it->second.levelE[lev] / 1000.0; }
}

using namespace vf;

static ref::Lib * g_ref = nullptr; // the flavour of the reference currently being driven
#define R (*g_ref)

// ------------------------------------------------------------------ comparison
struct PEvent // port event, flattened
{
  std::vector<ref::Particle> parts;
  double time = 0; std::string gen;
};
static PEvent flatten(const bxdecay0::event & e)
{
  PEvent o; o.time = e.get_time(); o.gen = e.get_generator();
  for (auto & p : e.get_particles()) {
    ref::Particle q; q.code = (int)p.get_code(); q.p[0] = p.get_px(); q.p[1] = p.get_py(); q.p[2] = p.get_pz();
    q.t = p.get_time(); q.dt = 0; o.parts.push_back(q);
  }
  return o;
}
static double pnorm(const ref::Particle & p) { return std::sqrt(p.p[0] * p.p[0] + p.p[1] * p.p[1] + p.p[2] * p.p[2]); }
static double mass_of(int code) { return code == 1 ? 0.0 : (code == 47 ? 3727.417 : 0.51099906); }
static double kin_of(const ref::Particle & p) { double m = mass_of(p.code), pp = pnorm(p); return std::sqrt(pp * pp + m * m) - m; }

static const double TOL_P_REL = 5e-7, TOL_P_ABS = 1e-12, TOL_T_REL = 1e-9, TOL_T_ABS = 1e-30;

static bool same_mom(const ref::Particle & a, const ref::Particle & b)
{
  double n = std::max(pnorm(a), pnorm(b));
  for (int k = 0; k < 3; k++) if (std::fabs(a.p[k] - b.p[k]) > TOL_P_REL * n + TOL_P_ABS) return false;
  return true;
}
static bool same_time(double a, double b) { return std::fabs(a - b) <= TOL_T_REL * std::max(std::fabs(a), std::fabs(b)) + TOL_T_ABS; }

struct Cmp { bool ok = true; std::string cls, msg; int pair_swaps = 0; bool y90 = false; bool sub50 = false; };

// Compare port event with reference event under the documented admissible differences.
static Cmp compare(const PEvent & pe, const ref::Event & re, bool is_y90)
{
  Cmp c;
  auto fail = [&](const std::string & cls, const std::string & m) { if (c.ok) { c.ok = false; c.cls = cls; c.msg = m; } };
  if ((int)pe.parts.size() != re.np) { fail("count", "particle count port=" + std::to_string(pe.parts.size()) + " ref=" + std::to_string(re.np)); return c; }
  if (!(pe.time == 0.0)) fail("evtime", "event reference time is not 0");
  size_t n = pe.parts.size();
  // (d) Y90: when the reference event holds the internal-pair positron only count/species(as multiset within pair)/times
  //     and the pair's summed kinetic energy are compared
  bool y90pair = false;
  if (is_y90) for (auto & p : re.parts) if (p.code == 2) y90pair = true;
  c.y90 = y90pair;
  for (size_t i = 0; i < n; i++) {
    const ref::Particle & a = pe.parts[i]; const ref::Particle & b = re.parts[i];
    // (c) internal pair: port emits e- then e+, reference e+ then e-; adjacent, same |p|, zero time increment
    if (i + 1 < n && a.code == 3 && pe.parts[i + 1].code == 2 && b.code == 2 && re.parts[i + 1].code == 3
        && re.parts[i + 1].dt == 0.0) {
      const ref::Particle & a2 = pe.parts[i + 1]; const ref::Particle & b2 = re.parts[i + 1];
      if (y90pair) {
        double ks_p = kin_of(a) + kin_of(a2), ks_r = kin_of(b) + kin_of(b2);
        if (std::fabs(ks_p - ks_r) > 1e-6 * std::max(1.0, ks_r)) fail("momentum", "Y90 pair kinetic sum differs");
      } else {
        if (!(same_mom(a, b2) && same_mom(a2, b))) fail("momentum", "pair momenta differ at particle " + std::to_string(i));
      }
      if (!y90pair && (!same_time(a.t, b.t) || !same_time(a2.t, b2.t))) fail("time", "pair times differ at particle " + std::to_string(i));
      // the revised Y90 block draws its deviates in another order, so its level-lifetime draw cannot be compared with the reference's; what
      // the revision leaves intact is that the two members of the pair leave at ONE instant (zero increment in the reference)
      if (y90pair && a.t != a2.t) fail("time", "Y90 internal pair: e- at " + jnum(a.t) + " s, e+ at " + jnum(a2.t) + " s - the reference emits the pair at one instant");
      c.pair_swaps++; i++; continue;
    }
    if (a.code != b.code) { fail("species", "species differ at particle " + std::to_string(i) + " port=" + std::to_string(a.code) + " ref=" + std::to_string(b.code)); return c; }
    if (!same_mom(a, b)) {
      // signature of the reference's fermi(Z,E) side effect (E overwritten by 50 eV): see DESIGN.md section 3
      double kp = kin_of(a), kr = kin_of(b);
      if ((a.code == 2 || a.code == 3) && kp < 50.0e-6 && std::fabs(kr - 50.0e-6) < 1e-9) c.sub50 = true;
      fail("momentum", "momentum differs at particle " + std::to_string(i) + " code=" + std::to_string(a.code) + " port=(" + jnum(a.p[0]) + "," + jnum(a.p[1]) + "," + jnum(a.p[2]) + ") ref=(" + jnum(b.p[0]) + "," + jnum(b.p[1]) + "," + jnum(b.p[2]) + ")");
    }
    if (!same_time(a.t, b.t)) fail("time", "time differs at particle " + std::to_string(i) + " port=" + jnum(a.t) + " ref(sum)=" + jnum(b.t));
  }
  return c;
}

static std::string ev_json(const std::vector<ref::Particle> & ps)
{
  std::string o = "[";
  for (size_t i = 0; i < ps.size(); i++) {
    if (i) o += ",";
    o += "[" + std::to_string(ps[i].code) + "," + jnum(ps[i].p[0]) + "," + jnum(ps[i].p[1]) + "," + jnum(ps[i].p[2]) + "," + jnum(ps[i].t) + "]";
  }
  return o + "]";
}

// decay-path signature: species sequence, gamma/alpha/conv-electron energies rounded to keV, betas abstracted
static std::string path_sig(const PEvent & e)
{
  std::string s;
  for (auto & p : e.parts) {
    char b[32]; double k = kin_of(p);
    if (p.code == 1) snprintf(b, sizeof b, "g%d.", (int)std::lround(k * 1000));
    else if (p.code == 47) snprintf(b, sizeof b, "a%d.", (int)std::lround(k * 1000));
    else snprintf(b, sizeof b, "%s.", p.code == 2 ? "e+" : "e-");
    s += b;
  }
  return s;
}

// ------------------------------------------------------------------ case definitions
struct Config
{
  std::string kind;      // "bkg" | "dbd"
  std::string name;      // published name (port)
  std::string refname;   // reference chnuclide
  int level = 0, mode = 0;
  bool has_window = false; double ebb1 = 0, ebb2 = 4.3;
  double nme[7] = {1, 1, 1, 1, 1, 1, 1};
  // prelude (port side only): one event of ANOTHER background nuclide generated immediately before the event under comparison, so that state
  // shared between nuclides through the common helpers (a cached spectrum maximum, a static work array) meets the reference, which is pure
  std::string pre_name; uint64_t pre_seed = 0;
  std::string key() const
  {
    char b[200]; snprintf(b, sizeof b, "%s:%s:%d:%d:%d:%.6g:%.6g", kind.c_str(), name.c_str(), level, mode, (int)has_window, ebb1, ebb2);
    return b;
  }
  std::string json() const
  {
    std::string o = "{\"kind\":" + jstr(kind) + ",\"name\":" + jstr(name) + ",\"refname\":" + jstr(refname) + ",\"level\":" + std::to_string(level) + ",\"mode\":" + std::to_string(mode) + ",\"has_window\":" + (has_window ? "true" : "false") + ",\"ebb1\":" + jstr(hexd(ebb1)) + ",\"ebb2\":" + jstr(hexd(ebb2)) + ",\"nme\":[";
    for (int i = 0; i < 7; i++) o += (i ? "," : "") + jstr(hexd(nme[i]));
    o += "]";
    if (!pre_name.empty()) o += ",\"pre_name\":" + jstr(pre_name) + ",\"pre_seed\":" + jstr(std::to_string(pre_seed));
    return o + "}";
  }
  static Config from(const JV & j)
  {
    Config c; c.kind = j.s("kind"); c.name = j.s("name"); c.refname = j.s("refname"); c.level = (int)j.n("level", 0); c.mode = (int)j.n("mode", 0);
    c.has_window = j.has("has_window") && j.at("has_window").b; c.ebb1 = strtod(j.s("ebb1", "0").c_str(), nullptr); c.ebb2 = strtod(j.s("ebb2", "4.3").c_str(), nullptr);
    if (j.has("nme")) { auto v = jtape_read(j.at("nme")); for (int i = 0; i < 7 && i < (int)v.size(); i++) c.nme[i] = v[i]; }
    c.pre_name = j.s("pre_name", ""); c.pre_seed = strtoull(j.s("pre_seed", "0").c_str(), nullptr, 10);
    return c;
  }
};

static std::vector<double> dict_for(const Config & c)
{
  std::set<double> s; std::set<std::string> seen; std::vector<std::string> todo;
  auto it = REF_DISPATCH.find(c.kind + ":" + c.refname);
  if (it != REF_DISPATCH.end()) todo = it->second;
  if (c.kind == "low") todo = {c.refname};
  while (!todo.empty()) {
    std::string n = todo.back(); todo.pop_back();
    if (!seen.insert(n).second) continue;
    auto d = REF_DICT.find(n); if (d != REF_DICT.end()) s.insert(d->second.begin(), d->second.end());
    auto cl = REF_CALLS.find(n);
    if (cl != REF_CALLS.end()) for (auto & x : cl->second) {
      // only descend into nuclide-like subroutines (those with their own thresholds and not the generic samplers)
      if (x == "beta" || x == "beta1" || x == "beta2" || x == "beta_1fu" || x == "particle" || x == "pair" || x == "tgold") continue;
      todo.push_back(x);
    }
  }
  return std::vector<double>(s.begin(), s.end());
}

static Profile profile_for(uint64_t h)
{
  Profile p;
  switch (h % 6) {
  case 0: p.p_plain = 1.0; break;
  case 1: p.p_plain = 0.85; p.w_dict = 1; break;
  case 2: p.p_plain = 0.6; p.w_dict = 1; break;
  case 3: p.p_plain = 0.7; p.w_low = 1; p.w_high = 1; p.w_dict = 2; break;
  case 4: p.p_plain = 0.5; p.w_dict = 3; p.w_low = 0.5; p.w_high = 0.5; break;
  default: p.p_plain = 0.8; p.w_low = 1; p.w_high = 1; break;
  }
  return p;
}

// ------------------------------------------------------------------ running one event on both sides
struct Sides
{
  PEvent pe; ref::Event re; size_t npos = 0, rpos = 0; bool p_exc = false, r_over = false, p_over = false; std::string exc; int sub50 = 0;
};

static const size_t DEV_LIMIT = 20000;

struct DbdState // port side state for a dbd config
{
  bxdecay0::bbpars pars; int ier = 0;
  ~DbdState() { vf::redzones(pars, false); }   // (sanitized build) red zones around the spectrum tables: engine/redzone.hpp
};

static void port_prelude(const Config & c);
static void port_event(const Config & c, DbdState * st, TapeRandom & r, Sides & s)
{
  bxdecay0::event ev;
  if (!c.pre_name.empty()) port_prelude(c);
  try {
    int ier = 0;
    if (c.kind == "low") {
      // de-excitation routine called directly (cascade-level differential): no primary leptons, no genbbsub
      ev.set_time(0.0);
      REF_LOW.at(c.refname).fn(r, ev, c.level);
    } else if (c.kind == "bkg") {
      bxdecay0::bbpars pars;
      bxdecay0::genbbsub(r, ev, bxdecay0::GENBBSUB_I2BBS_BACKGROUND, c.name, -1, -1, bxdecay0::GENBBSUB_ISTART_GENERATE, ier, pars);
    } else {
      bxdecay0::genbbsub(r, ev, bxdecay0::GENBBSUB_I2BBS_DBD, c.name, c.level, c.mode, bxdecay0::GENBBSUB_ISTART_GENERATE, ier, st->pars);
    }
    if (ier != 0) { s.p_exc = true; s.exc = "genbbsub ier=" + std::to_string(ier); }
  } catch (TapeOverrun &) { s.p_over = true; }
  catch (std::exception & e) { s.p_exc = true; s.exc = e.what(); }
  s.npos = r.pos; s.pe = flatten(ev);
}
static void port_prelude(const Config & c)
{
  static std::map<std::string, std::vector<double>> dicts;
  auto it = dicts.find(c.pre_name);
  if (it == dicts.end()) { Config a; a.kind = "bkg"; a.name = c.pre_name; a.refname = c.pre_name.substr(0, c.pre_name.find('+')); it = dicts.emplace(c.pre_name, dict_for(a)).first; }
  Tape pt; pt.seed = c.pre_seed; pt.prof = profile_for(splitmix64(c.pre_seed)); pt.dict = &it->second;
  TapeRandom pr(pt, 0, DEV_LIMIT); bxdecay0::event pe; int ier = 0; bxdecay0::bbpars pars;
  try { bxdecay0::genbbsub(pr, pe, bxdecay0::GENBBSUB_I2BBS_BACKGROUND, c.pre_name, -1, -1, bxdecay0::GENBBSUB_ISTART_GENERATE, ier, pars); } catch (std::exception &) {}
}
static void ref_event(ref::Lib & lib, const Config & c, TapeRandom & r, Sides & s)
{
  g_ref = &lib;
  R.restore(1);
  ref::g_rnd = &r; R.clear_event(); ref::g_sub50 = 0;
  try {
    if (c.kind == "low") R.call_low(c.refname, c.level);
    else R.call(c.kind == "bkg" ? 2 : 1, c.refname, c.level, c.mode, 1);
  } catch (TapeOverrun &) { s.r_over = true; }
  s.rpos = r.pos; s.re = R.get_event(); s.sub50 = ref::g_sub50;
}

struct Outcome { bool ok = true; bool skip = false; bool excused_constants = false; std::string cls, msg; Cmp cmp; Sides s; };

static Outcome run_event_vs(ref::Lib & lib, const Config & c, DbdState * st, Tape & tape, double eps, uint64_t pseed)
{
  Outcome o;
  TapeRandom rp(tape, 0, DEV_LIMIT), rr(tape, 0, DEV_LIMIT);
  rp.scale_eps = rr.scale_eps = eps; rp.pert_seed = rr.pert_seed = pseed;
  port_event(c, st, rp, o.s);
  ref_event(lib, c, rr, o.s);
  if (o.s.p_exc) { o.ok = false; o.cls = "exception"; o.msg = o.s.exc; return o; }
  if (o.s.p_over && o.s.r_over) { o.skip = true; return o; }
  if (o.s.p_over != o.s.r_over) { o.ok = false; o.cls = "overrun"; o.msg = o.s.p_over ? "port exceeds deviate budget, reference does not" : "reference exceeds deviate budget, port does not"; return o; }
  o.cmp = compare(o.s.pe, o.s.re, c.refname == "Y90");
  if (!o.cmp.ok) { o.ok = false; o.cls = o.cmp.cls; o.msg = o.cmp.msg; return o; }
  if (o.s.npos != o.s.rpos && !o.cmp.y90) { o.ok = false; o.cls = "ndeviates"; o.msg = "deviates consumed port=" + std::to_string(o.s.npos) + " ref=" + std::to_string(o.s.rpos); }
  return o;
}

// Constants rule: a mismatch against the strict reference is excused iff the port agrees with the harmonised
// flavour (pi, 2pi and the electron mass inside fermi at the port's precision) on the same tape.
static Outcome run_event(const Config & c, DbdState * st, Tape & tape, double eps = 0, uint64_t pseed = 0)
{
  Outcome o = run_event_vs(ref::strict(), c, st, tape, eps, pseed);
  if (o.ok || o.skip || o.cls == "exception") return o;
  Outcome h = run_event_vs(ref::harmonised(), c, st, tape, eps, pseed);
  if (h.ok && !h.skip) { h.excused_constants = true; return h; }
  return o;
}

// ------------------------------------------------------------------ dbd init on both sides
struct InitOut { bool ok = true; std::string cls, msg; int ier_p = 0, ier_r = 0; bool p_exc = false; std::string exc; double toall_p = 1, toall_r = 1, toall_h = 1; bool toall_excused = false; };

static InitOut init_dbd(const Config & c, DbdState & st, Tape & itape)
{
  InitOut o;
  TapeRandom rp(itape, 0, DEV_LIMIT), rr(itape, 0, DEV_LIMIT);
  vf::redzones(st.pars, false);
  st.pars.reset();
  vf::redzones(st.pars, true);
  if (c.has_window) { st.pars.ebb1 = c.ebb1; st.pars.ebb2 = c.ebb2; }
  st.pars.chi_GTw = c.nme[0]; st.pars.chi_Fw = c.nme[1]; st.pars.chip_GT = c.nme[2]; st.pars.chip_F = c.nme[3];
  st.pars.chip_T = c.nme[4]; st.pars.chip_P = c.nme[5]; st.pars.chip_R = c.nme[6];
  bxdecay0::event dummy;
  try {
    bxdecay0::genbbsub(rp, dummy, bxdecay0::GENBBSUB_I2BBS_DBD, c.name, c.level, c.mode, bxdecay0::GENBBSUB_ISTART_INIT, o.ier_p, st.pars);
  } catch (std::exception & e) { o.p_exc = true; o.exc = e.what(); o.ier_p = -1; }
  g_ref = &ref::strict();
  R.restore(0);
  R.set_params(c.has_window ? c.ebb1 : 0.0, c.has_window ? c.ebb2 : 4.3);
  R.set_nme(c.nme);
  ref::g_rnd = &rr; R.clear_event();
  g_ref = &ref::strict();
  o.ier_r = R.call(1, c.refname, c.level, c.mode, -1);
  R.snapshot(1);
  ref::Range rg = R.get_range();
  {
    TapeRandom rh(itape, 0, DEV_LIMIT);
    g_ref = &ref::harmonised();
    R.restore(0);
    R.set_params(c.has_window ? c.ebb1 : 0.0, c.has_window ? c.ebb2 : 4.3); R.set_nme(c.nme);
    ref::g_rnd = &rh; R.clear_event();
    int ier_h = R.call(1, c.refname, c.level, c.mode, -1);
    R.snapshot(1);
    if (ier_h == 0) o.toall_h = R.get_range().toall;
    g_ref = &ref::strict();
  }
  if ((o.ier_p != 0) != (o.ier_r != 0)) { o.ok = false; o.cls = "accept"; o.msg = "init port ier=" + std::to_string(o.ier_p) + (o.p_exc ? " (" + o.exc + ")" : "") + " ref ier=" + std::to_string(o.ier_r); return o; }
  if (o.ier_r != 0) return o;
  o.toall_p = st.pars.toallevents; o.toall_r = rg.toall;
  if (st.pars.levelE != rg.levelE) { o.ok = false; o.cls = "levelE"; o.msg = "levelE port=" + std::to_string(st.pars.levelE) + " ref=" + std::to_string(rg.levelE); return o; }
  if (st.pars.chdspin != rg.chdspin) { o.ok = false; o.cls = "chdspin"; o.msg = "chdspin port=" + st.pars.chdspin + " ref=" + rg.chdspin; return o; }
  if (!(std::fabs(o.toall_p - o.toall_r) <= 1e-9 * std::fabs(o.toall_r)) && (std::fabs(o.toall_p - o.toall_h) <= 2e-6 * std::fabs(o.toall_h) || std::fabs(o.toall_p - o.toall_r) <= 2e-6 * std::fabs(o.toall_r))) o.toall_excused = true; // constants rule + quadrature noise at the window cut
  else if (!(std::fabs(o.toall_p - o.toall_r) <= 1e-9 * std::fabs(o.toall_r))) { o.ok = false; o.cls = "toallevents"; o.msg = "toallevents port=" + jnum(o.toall_p) + " ref=" + jnum(o.toall_r) + " ref(harmonised)=" + jnum(o.toall_h); return o; }
  if (rp.pos != rr.pos) { o.ok = false; o.cls = "init-ndeviates"; o.msg = "deviates consumed by init port=" + std::to_string(rp.pos) + " ref=" + std::to_string(rr.pos); return o; }
  return o;
}

// ------------------------------------------------------------------ failure handling: knife-edge, shrink, replay file
struct Ctx
{
  Report rep; Known known; std::string replaydir; std::string prop; std::map<std::string, int> fail_per_cfg;
};

static std::string replay_json(const Ctx & cx, const Config & c, const Tape & t, size_t used, const Tape * itape, const std::string & sig, const Outcome & o)
{
  std::string js = "{\"property\":" + jstr(cx.prop) + ",\"config\":" + c.json() + ",\n\"tape_seed\":" + jstr(std::to_string(t.seed)) + ",\"profile\":[" + jnum(t.prof.p_plain) + "," + jnum(t.prof.w_low) + "," + jnum(t.prof.w_high) + "," + jnum(t.prof.w_dict) + "],\n\"tape\":" + jtape(t.v, used);
  if (itape) js += ",\n\"init_tape_seed\":" + jstr(std::to_string(itape->seed)) + ",\"init_tape\":" + jtape(itape->v, itape->v.size());
  js += ",\n\"sig\":" + jstr(sig) + ",\"msg\":" + jstr(o.msg) + ",\n\"port_event\":" + ev_json(o.s.pe.parts) + ",\n\"ref_event\":" + ev_json(o.s.re.parts) + ",\"deviates\":[" + std::to_string(o.s.npos) + "," + std::to_string(o.s.rpos) + "]}\n";
  return js;
}

// returns true if failure is robust (>=50% of perturbed replays mismatch too)
static bool knife_edge_robust(const Config & c, DbdState * st, Tape & tape, uint64_t pseed, int K = 24)
{
  int bad = 0, tot = 0;
  for (int k = 0; k < K; k++) {
    Outcome o = run_event(c, st, tape, 2e-5, mix(pseed, k));
    if (o.skip) continue;
    tot++; if (!o.ok) bad++;
  }
  return tot == 0 || 2 * bad >= tot;
}

static void shrink(const Config & c, DbdState * st, Tape & tape, const std::string & cls)
{
  // tape already materialised for the consumed prefix; try simplifying values, keep the same failure class
  auto still = [&](Tape & t) { Outcome o = run_event(c, st, t); return !o.ok && !o.skip && o.cls == cls; };
  Outcome o0 = run_event(c, st, tape);
  size_t used = std::max(o0.s.npos, o0.s.rpos);
  if (tape.v.size() > used) tape.v.resize(used);
  int budget = 400;
  // 1. replace values by 0.5 (from the end)
  for (size_t i = tape.v.size(); i-- > 0 && budget > 0;) {
    if (tape.v[i] == 0.5) continue;
    double old = tape.v[i]; tape.v[i] = 0.5; budget--;
    if (!still(tape)) tape.v[i] = old;
  }
  // 2. round to fewer digits
  for (size_t i = 0; i < tape.v.size() && budget > 0; i++) {
    for (int digits = 2; digits <= 8 && budget > 0; digits += 2) {
      double old = tape.v[i]; char b[40]; snprintf(b, sizeof b, "%.*g", digits, old); double nv = clampdev(strtod(b, nullptr));
      if (nv == old) break;
      tape.v[i] = nv; budget--;
      if (still(tape)) break;
      tape.v[i] = old;
    }
  }
  Outcome o1 = run_event(c, st, tape);
  used = std::max(o1.s.npos, o1.s.rpos);
  if (tape.v.size() > used) tape.v.resize(used);
}

static void report_failure(Ctx & cx, const Config & c, DbdState * st, Tape & tape, const Tape * itape, Outcome o)
{
  std::string sig = cx.prop + "|" + c.name + "|L" + std::to_string(c.level) + "|M" + std::to_string(c.mode) + "|" + o.cls + (o.s.sub50 ? "|ref-fermi-50eV-clamp" : "");
  std::string kid = cx.known.match(cx.prop, sig);
  if (!kid.empty()) { cx.rep.known[kid]++; return; }
  int & nf = cx.fail_per_cfg[c.key() + o.cls];
  if (nf >= 1) { cx.rep.count("further_failures_same_config_class"); return; } // one replay per (config, class)
  nf++;
  Tape t = tape;
  if (o.cls != "exception" && o.cls != "overrun") shrink(c, st, t, o.cls);
  Outcome o2 = run_event(c, st, t);
  if (o2.ok || o2.skip) { t = tape; o2 = o; }
  // re-execute 3x through the plain path
  int again = 0; for (int k = 0; k < 3; k++) { Outcome ok = run_event(c, st, t); if (!ok.ok && !ok.skip) again++; }
  if (again < 3) { cx.rep.count("unstable_failure_dropped"); return; }
  size_t used = std::max(o2.s.npos, o2.s.rpos); t.at(used ? used - 1 : 0);
  std::string js = replay_json(cx, c, t, used, itape, sig, o2);
  std::string path = cx.replaydir + "/" + cx.prop + "-" + hash_name(sig + js) + ".json";
  std::ofstream(path) << js;
  cx.rep.failures.push_back({sig, o2.msg, path});
}

// ------------------------------------------------------------------ C01
static std::vector<Config> c01_configs()
{
  std::vector<Config> v;
  for (auto & n : catalog::background_published()) {
    std::string rn = n.substr(0, n.find('+'));
    if (REF_DISPATCH.count("bkg:" + rn) == 0) continue; // not in the reference program
    Config c; c.kind = "bkg"; c.name = n; c.refname = rn; v.push_back(c);
  }
  return v;
}

static void init_bkg(const Config & c)
{
  Tape t; t.seed = 1; TapeRandom r(t);
  bxdecay0::event ev; int ier = 0; bxdecay0::bbpars pars;
  bxdecay0::genbbsub(r, ev, bxdecay0::GENBBSUB_I2BBS_BACKGROUND, c.name, -1, -1, bxdecay0::GENBBSUB_ISTART_INIT, ier, pars);
  if (ier != 0) throw std::runtime_error("port refuses published background name " + c.name);
  for (ref::Lib * lib : {&ref::strict(), &ref::harmonised()}) {
    g_ref = lib;
    R.restore(0);
    R.set_params(0, 4.3); ref::g_rnd = &r;
    int ierr = R.call(2, c.refname, 0, 0, -1);
    if (ierr != 0) throw std::runtime_error("reference refuses name " + c.refname);
    R.snapshot(1);
  }
}

// cascade-level differential: the reference needs no initialisation for a direct call of <Nuclide>low (its constants live in block data);
// slot 1 (restored before every event) is the pristine image
static void init_low()
{
  for (ref::Lib * lib : {&ref::strict(), &ref::harmonised()}) { g_ref = lib; R.restore(0); R.set_params(0, 4.3); R.snapshot(1); }
  g_ref = &ref::strict();
}

static void one_event_case(Ctx & cx, const Config & c, DbdState * st, const std::vector<double> & dict, uint64_t tseed, const Tape * itape, const std::string & wclass)
{
  Tape tape; tape.seed = tseed; tape.prof = profile_for(splitmix64(tseed)); tape.dict = &dict;
  Outcome o = run_event(c, st, tape);
  cx.rep.evaluations++;
  if (o.skip) { cx.rep.count("skipped_both_overrun"); return; }
  if (o.excused_constants) cx.rep.count("excused_by_constants_rule");
  std::string ps = path_sig(o.s.pe);
  cx.rep.label("profile:" + std::to_string((int)(tape.prof.p_plain * 100)));
  if (o.cmp.pair_swaps) cx.rep.count("admissible_pair_order_swaps");
  if (o.cmp.y90) cx.rep.count("admissible_y90_pair_events");
  if (!o.ok) {
    if (o.cls != "exception" && !knife_edge_robust(c, st, tape, tseed)) { cx.rep.count("excused_knife_edge"); return; }
    report_failure(cx, c, st, tape, itape, o);
    return;
  }
  std::string key = c.key() + "|" + wclass + "|" + ps;
  cx.rep.nt(key);
  if (cx.rep.samples.size() < cx.rep.max_samples && (tseed % 7 == 0))
    cx.rep.sample("{\"config\":" + c.json() + ",\"first_deviates\":" + jtape(tape.v, 6) + ",\"deviates_used\":" + std::to_string(o.s.npos) + ",\"event\":" + ev_json(o.s.pe.parts) + "}");
}

static int run_c01(Ctx & cx, const Args & a)
{
  uint64_t seed = a.i("seed", 1); int shard = a.i("shard", 0), nsh = a.i("nshards", 1); long long cases = a.i("cases", 1000);
  auto cfgs = c01_configs();
  cx.rep.counters["configs"] = cfgs.size();
  // each shard handles every nuclide; case index space split by shard
  for (size_t ci = 0; ci < cfgs.size(); ci++) {
    const Config & c = cfgs[ci];
    init_bkg(c);
    std::vector<double> dict = dict_for(c);
    std::set<std::string> paths;
    for (long long k = shard; k < cases; k += nsh) {
      uint64_t tseed = mix(mix(seed, 0xC01), mix(ci, k));
      // every second case is preceded, on the port side, by one event of another nuclide (chosen by hash among all of them)
      Config cc = c;
      if (k & 1) { uint64_t h = splitmix64(tseed ^ 0x9e1); cc.pre_name = cfgs[h % cfgs.size()].name; cc.pre_seed = splitmix64(h); cx.rep.count("cases_with_prelude_of_another_nuclide"); }
      one_event_case(cx, cc, nullptr, dict, tseed, nullptr, "");
    }
    cx.rep.label("nuclide:" + c.name);
  }
  return 0;
}

// ------------------------------------------------------------------ C02
static const int WINDOW_MODES[] = {4, 5, 6, 8, 10, 13, 14, 15, 16, 19};
static bool window_mode(int m) { for (int x : WINDOW_MODES) if (x == m) return true; return false; }

struct DbdPoint { std::string name; int level, mode; };

// all (isotope, level, mode) the reference accepts: probed on the reference itself (cheap rejection happens before bb())
static std::vector<DbdPoint> c02_points_quick()
{
  // cheap pre-filter of the acceptance with the reference rules would need init (expensive for gauss modes);
  // enumerate candidates; acceptance is decided at init time in the main loop.
  std::vector<DbdPoint> v;
  for (auto & n : catalog::dbd_published())
    for (int lev = 0; lev <= catalog::dbd_max_level(n); lev++)
      for (int m = 1; m <= 20; m++) {
        if (m == 20 && lev > 0) continue; // README: quadruple beta only to the ground state (the reference silently forces ilevel=0)
        v.push_back({n, lev, m});
      }
  return v;
}

// returns true iff the reference accepted the configuration (events were compared)
static bool run_dbd_config(Ctx & cx, const Config & c, uint64_t seed, int nev, const std::string & wclass)
{
  DbdState st;
  Tape itape; itape.seed = mix(seed, std::hash<std::string>()(c.key())); itape.prof = Profile();
  InitOut io = init_dbd(c, st, itape);
  cx.rep.evaluations++;
  if (io.toall_excused) cx.rep.count("toallevents_excused_by_constants_rule");
  if (!io.ok) {
    Outcome o; o.ok = false; o.cls = io.cls; o.msg = io.msg;
    std::string sig = cx.prop + "|" + c.name + "|L" + std::to_string(c.level) + "|M" + std::to_string(c.mode) + "|" + io.cls;
    std::string kid = cx.known.match(cx.prop, sig);
    if (!kid.empty()) { cx.rep.known[kid]++; }
    else {
      Tape t; t.seed = 0;
      std::string js = replay_json(cx, c, t, 0, &itape, sig, o);
      std::string path = cx.replaydir + "/" + cx.prop + "-" + hash_name(sig + c.key()) + ".json";
      std::ofstream(path) << js;
      cx.rep.failures.push_back({sig, io.msg, path});
    }
    if (io.cls == "accept") return false;
    if (io.ier_r != 0) return false;
  }
  if (io.ier_r != 0) { cx.rep.label("ref-rejected"); return false; }
  cx.rep.label("ref-accepted");
  cx.rep.label("mode:" + std::to_string(c.mode));
  cx.rep.label("window:" + wclass);
  std::vector<double> dict = dict_for(c);
  for (int k = 0; k < nev; k++) {
    uint64_t tseed = mix(itape.seed, 1000 + k);
    one_event_case(cx, c, &st, dict, tseed, &itape, wclass);
  }
  return true;
}

static int run_c02(Ctx & cx, const Args & a)
{
  uint64_t seed = a.i("seed", 1); int shard = a.i("shard", 0), nsh = a.i("nshards", 1);
  int nev = a.i("evts", 200); std::string grid = a.s("grid", "strat");
  auto pts = c02_points_quick();
  if (a.has("lowonly")) pts.clear(); // diagnostic: cascade-level pass only
  // the shard/stratification decision is a pure function of (seed, point index)
  size_t idx = 0, taken = 0;
  // stratified: every isotope at level 0 with ALL its modes, highest level with a third, 1/11 of the rest - and, so that no
  // daughter-level cascade goes unvisited, for EVERY (isotope, level) the point with the smallest hash
  // (the representative of a (isotope, level) is searched among the ACCEPTED cells: see the pass after the main loop)
  for (auto & p : pts) {
    size_t my = idx++;
    bool take;
    if (grid == "full") take = true;
    else {
      uint64_t h = mix(seed, my);
      int maxl = catalog::dbd_max_level(p.name);
      // every mode of every isotope at the ground-state level (the primary-lepton code differs per mode and per sign of the process),
      // a third of the cells of the highest level, 1/11 of the rest, and the representative of every (isotope, level)
      take = p.level == 0 || (p.level == maxl && (h % 3) == 0) || (h % 11) == 0;
    }
    if (!take) continue;
    if ((taken++ % nsh) != (size_t)shard) continue;
    Config c; c.kind = "dbd"; c.name = p.name; c.refname = p.name; c.level = p.level; c.mode = p.mode;
    if (c.mode == 18) { Rng r(mix(seed, my * 31 + 7)); for (int i = 0; i < 7; i++) c.nme[i] = std::round(r.uniform(-2, 2) * 100) / 100; }
    run_dbd_config(cx, c, seed, nev, "none");
    if (window_mode(c.mode)) {
      // window classes: interior, low sliver, high sliver, beyond e0
      Rng r(mix(seed, my * 131 + 3));
      // e0 is not known here without init; use Q-independent fractions of a nominal 0..Q range via catalog Q
      double q = catalog::dbd_q_nominal(p.name) - catalog::dbd_level_energy_nominal(p.name, p.level);
      if (q > 0.05) {
        int wc = r.range(0, 4);
        std::vector<int> classes; if (grid == "full") classes = {0, 1, 2, 3, 4}; else classes = {wc};
        for (int w : classes) {
          Config cw = c; cw.has_window = true;
          if (w == 0) { double a1 = r.uniform(0.05, 0.5) * q, b1 = r.uniform(0.55, 0.95) * q; cw.ebb1 = std::round(a1 * 1000) / 1000; cw.ebb2 = std::round(b1 * 1000) / 1000; }
          else if (w == 1) { cw.ebb1 = 0.0; cw.ebb2 = std::round((0.01 + r.uniform(0, 0.03)) * 1000) / 1000 + 0.02; }
          else if (w == 2) { cw.ebb1 = std::round((q - 0.02 - r.uniform(0, 0.1) * q) * 1000) / 1000; cw.ebb2 = 4.3; }
          else if (w == 3) { cw.ebb1 = std::round(0.3 * q * 1000) / 1000; cw.ebb2 = q + 0.5; }
          else { cw.ebb1 = -std::round(r.uniform(0.01, 1.0) * 1000) / 1000; cw.ebb2 = std::round(r.uniform(0.4, 0.9) * q * 1000) / 1000; } // negative lower bound: clipped to 0 on both sides
          static const char * wn[] = {"interior", "low-sliver", "high-sliver", "beyond-e0", "negative-lower-bound"};
          run_dbd_config(cx, cw, seed, nev, wn[w]);
        }
      }
    }
  }
  // representative pass (stratified grid only): for EVERY (isotope, excited level) the modes are tried in a hash order until the reference
  // accepts one (many levels admit only a few modes, e.g. 11/12 for the upper levels of the 2EC candidates), and that cell gets 3x the events:
  // the entry into every daughter-level cascade through genbbsub is compared on both sides whatever the seed
  if (grid != "full" && !a.has("lowonly")) {
    std::map<std::pair<std::string, int>, std::vector<int>> groups;
    for (auto & p : pts) if (p.level > 0) groups[{p.name, p.level}].push_back(p.mode);
    size_t gi = 0;
    for (auto & g : groups) {
      size_t my = gi++;
      if ((my % nsh) != (size_t)shard) continue;
      std::vector<int> modes = g.second;
      std::sort(modes.begin(), modes.end(), [&](int x, int y) { return mix(mix(seed ^ 0x5eed, my), x) < mix(mix(seed ^ 0x5eed, my), y); });
      for (int m : modes) {
        Config c; c.kind = "dbd"; c.name = g.first.first; c.refname = c.name; c.level = g.first.second; c.mode = m;
        if (c.mode == 18) { Rng r(mix(seed, my * 37 + 5)); for (int i = 0; i < 7; i++) c.nme[i] = std::round(r.uniform(-2, 2) * 100) / 100; }
        if (run_dbd_config(cx, c, mix(seed, 0x4e9), 3 * nev, "none")) { cx.rep.label("level-representative"); break; }
      }
    }
  }
  // cascade-level pass: every de-excitation routine <Nuclide>low is called DIRECTLY on both sides for every entry level the reference
  // tabulates, without the primary leptons (which cost ~95% of a double-beta event and never influence the cascade): every branch of every
  // daughter level scheme gets thousands of steered tapes in the quick tier
  {
    long long nlow = a.i("lowevts", 4000);
    size_t k = 0;
    init_low();
    for (auto & kv : REF_LOW) {
      if (!kv.second.fn) { cx.rep.label("low-routine-not-in-port:" + kv.first); continue; }
      for (int lev : kv.second.levels) {
        if ((k++ % nsh) != (size_t)shard) continue;
        Config c; c.kind = "low"; c.name = kv.first; c.refname = kv.first; c.level = lev; c.mode = 0;
        std::vector<double> dict = dict_for(c);
        cx.rep.label("low:" + kv.first);
        for (long long e = 0; e < nlow; e++) one_event_case(cx, c, nullptr, dict, mix(mix(seed, 0x10e), mix(k, e)), nullptr, "cascade-only");
      }
    }
  }
  return 0;
}

// ------------------------------------------------------------------ replay
static int run_replay(Ctx & cx, const std::string & file)
{
  JV j = jload(file);
  Config c = Config::from(j.at("config"));
  Tape tape; tape.seed = strtoull(j.s("tape_seed", "0").c_str(), nullptr, 10);
  if (j.has("profile")) { auto p = jtape_read(j.at("profile")); if (p.size() == 4) { tape.prof.p_plain = p[0]; tape.prof.w_low = p[1]; tape.prof.w_high = p[2]; tape.prof.w_dict = p[3]; } }
  std::vector<double> dict = dict_for(c); tape.dict = &dict;
  tape.v = jtape_read(j.at("tape"));
  DbdState st; Outcome o;
  if (c.kind == "bkg") { init_bkg(c); o = run_event(c, nullptr, tape); }
  else if (c.kind == "low") { init_low(); o = run_event(c, nullptr, tape); }
  else {
    Tape itape; itape.seed = strtoull(j.s("init_tape_seed", "0").c_str(), nullptr, 10);
    if (j.has("init_tape")) itape.v = jtape_read(j.at("init_tape"));
    InitOut io = init_dbd(c, st, itape);
    if (!io.ok) { fprintf(stderr, "REPLAY-FAIL %s: %s\n", io.cls.c_str(), io.msg.c_str()); printf("REPLAY-FAIL class=%s %s\n", io.cls.c_str(), io.msg.c_str()); return 1; }
    if (io.ier_r != 0) { printf("REPLAY-PASS (both reject)\n"); return 0; }
    o = run_event(c, &st, tape);
  }
  if (!o.ok && !o.skip) { printf("REPLAY-FAIL class=%s %s\nport=%s\nref=%s\n", o.cls.c_str(), o.msg.c_str(), ev_json(o.s.pe.parts).c_str(), ev_json(o.s.re.parts).c_str()); return 1; }
  printf("REPLAY-PASS\n");
  return 0;
}

#ifndef REFDIFF_NO_MAIN
int main(int argc, char ** argv)
{
  Args a(argc, argv);
  Ctx cx; cx.prop = a.s("prop", "C01"); cx.rep.prop = cx.prop; cx.replaydir = a.s("replaydir", "replay");
  if (a.has("known")) cx.known.load(a.s("known"));
  // keep a private copy of stdout for results; silence the chatty library / Fortran prints
  int out_fd = dup(1);
  silence_stdio(true, !a.has("verbose"));
  FILE * res = fdopen(out_fd, "w");
  int rc = 0;
  try {
    g_ref = &ref::strict();
    if (a.has("replay")) {
      // replay prints to the real stdout
      fflush(stdout); dup2(out_fd, 1);
      rc = run_replay(cx, a.s("replay"));
      fflush(stdout);
      return rc;
    }
    if (cx.prop == "C01") rc = run_c01(cx, a); else rc = run_c02(cx, a);
  } catch (std::exception & e) {
    fprintf(res, "HARNESS-ERROR %s\n", e.what()); fflush(res); return 2;
  }
  cx.rep.write(a.s("out", "report.json"));
  fprintf(res, "done evaluations=%llu failures=%zu\n", (unsigned long long)cx.rep.evaluations, cx.rep.failures.size());
  fflush(res);
  return rc;
}
#endif
