/* killshim.c -- LD_PRELOAD shim for C13 kill points: counts write/writev calls on regular files and _exit()s the
   process just BEFORE the k-th one (VERIF_KILL_AT=k).  With VERIF_KILL_COUNT=<file> it only counts and stores the total. */
#define _GNU_SOURCE
#include <dlfcn.h>
#include <stdio.h>
#include <stdlib.h>
#include <unistd.h>
#include <sys/stat.h>
#include <sys/uio.h>
static long g_count = 0, g_kill = -1; static int g_init = 0; static const char * g_cf = 0;
static void init(void) { if (g_init) return; g_init = 1; const char * k = getenv("VERIF_KILL_AT"); if (k) g_kill = atol(k); g_cf = getenv("VERIF_KILL_COUNT"); }
static int regular(int fd) { struct stat st; return fstat(fd, &st) == 0 && S_ISREG(st.st_mode); }
static void tick(int fd)
{
  init(); if (!regular(fd)) return;
  g_count++;
  if (g_kill > 0 && g_count == g_kill) _exit(137);
}
ssize_t write(int fd, const void * buf, size_t n)
{ static ssize_t (*real)(int, const void *, size_t) = 0; if (!real) real = dlsym(RTLD_NEXT, "write"); tick(fd); return real(fd, buf, n); }
ssize_t writev(int fd, const struct iovec * iov, int cnt)
{ static ssize_t (*real)(int, const struct iovec *, int) = 0; if (!real) real = dlsym(RTLD_NEXT, "writev"); tick(fd); return real(fd, iov, cnt); }
__attribute__((destructor)) static void fini(void) { if (g_cf) { FILE * f = fopen(g_cf, "w"); if (f) { fprintf(f, "%ld\n", g_count); fclose(f); } } }
