// kernels.cc -- C16: the numerical kernels against closed forms (engine A: cases derived from VERIF_SEED and the case index).
#include <cmath>
#include <complex>
#include <iostream>
#include <unistd.h>

#include <bxdecay0/dgmlt1.h>
#include <bxdecay0/dgmlt2.h>
#include <bxdecay0/divdif.h>
#include <bxdecay0/fermi.h>
#include <bxdecay0/gauss.h>
#include <bxdecay0/tgold.h>
#include <bxdecay0/tsimpr.h>
#include <bxdecay0/utils.h>
#include "../engine/vf.hpp"

using namespace vf;

struct Res { bool ok = true; bool decoy = false; std::string cls, msg, nt, desc; };

// ---------------------------------------------------------------- Gauss-Legendre panels
struct MonoPar { int k; int calls; };
static void fsub_mono(int m, const double * u, double * f, double * /*x*/, void * p)
{ MonoPar * mp = (MonoPar *)p; mp->calls++; for (int i = 0; i < m; i++) f[i] = std::pow(u[i], mp->k); }
// nested use as in dshelp1/dshelp2: outer integrates x1^k1 times inner integral of x2^k2 over [A2,B2]
struct NestPar { int k1, k2; double a2, b2; int ni2, ng2; };
static void fsub_inner(int m, const double * u, double * f, double * x, void * p)
{ NestPar * np = (NestPar *)p; for (int i = 0; i < m; i++) { x[1] = u[i]; f[i] = std::pow(x[0], np->k1) * std::pow(x[1], np->k2); } }
static void fsub_outer(int m, const double * u, double * f, double * x, void * p)
{ NestPar * np = (NestPar *)p; for (int i = 0; i < m; i++) { x[0] = u[i]; f[i] = bxdecay0::decay0_dgmlt2(fsub_inner, np->a2, np->b2, np->ni2, np->ng2, x, p); } }

static double mono_int(int k, double a, double b) { return (std::pow(b, k + 1) - std::pow(a, k + 1)) / (k + 1); }
static double mono_absint(int k, double a, double b)
{ // integral of |x^k| over [a,b] (scale for the relative tolerance)
  if (a >= 0 || b <= 0 || k % 2 == 0) return std::fabs(mono_int(k, a, b));
  return std::fabs(mono_int(k, 0, b)) + std::fabs(mono_int(k, a, 0));
}

static Res case_dgmlt(Rng & r)
{
  Res res; int which = r.range(1, 3); int ng = r.chance(0.5) ? 8 : 6; int ni = r.range(1, 20);
  double a = r.uniform(-3, 3), b = a + std::pow(10.0, r.uniform(-2, 0.7)) * (r.chance(0.2) ? -1 : 1);
  int kmax = 2 * ng - 1; int k = r.range(0, kmax); double x[2] = {0, 0};
  char d[200];
  if (which <= 2) {
    MonoPar mp{k, 0};
    // decoy call: the same routine with the SAME visible arguments but another parameter block immediately before (a result remembered per
    // argument list, or work arrays kept between calls, would leak into the call under test; the oracle stays the mathematical contract)
    if (r.chance(0.3)) { MonoPar dp{(k + 1 + r.range(0, kmax - 1)) % (kmax + 1), 0}; double xd[2] = {0, 0}; (void)(which == 1 ? bxdecay0::decay0_dgmlt1(fsub_mono, a, b, ni, ng, xd, &dp) : bxdecay0::decay0_dgmlt2(fsub_mono, a, b, ni, ng, xd, &dp)); res.decoy = true; }
    double got = which == 1 ? bxdecay0::decay0_dgmlt1(fsub_mono, a, b, ni, ng, x, &mp) : bxdecay0::decay0_dgmlt2(fsub_mono, a, b, ni, ng, x, &mp);
    double want = mono_int(k, a, b), sc = mono_absint(k, std::min(a, b), std::max(a, b));
    snprintf(d, sizeof d, "dgmlt%d x^%d on [%.6g,%.6g] NI=%d NG=%d", which, k, a, b, ni, ng); res.desc = d;
    if (std::fabs(got - want) > 1e-13 * sc + 1e-300) { res.ok = false; res.cls = std::string("dgmlt") + std::to_string(which) + "-exactness-NG" + std::to_string(ng); res.msg = res.desc + ": got " + jnum(got) + " want " + jnum(want) + " (rel.err " + jnum(std::fabs(got - want) / sc) + ")"; }
    res.nt = std::string("dgmlt") + std::to_string(which) + "|NG" + std::to_string(ng) + "|k" + std::to_string(k) + "|NI" + std::to_string(std::min(ni, 4)) + (res.decoy ? "|after-decoy" : "");
  } else {
    NestPar np; np.k1 = r.range(0, kmax); int ng2 = r.chance(0.5) ? 8 : 6; np.k2 = r.range(0, 2 * ng2 - 1); np.a2 = r.uniform(0, 1); np.b2 = np.a2 + r.uniform(0.1, 2); np.ni2 = r.range(1, 16); np.ng2 = ng2;
    double a1 = r.uniform(0, 1), b1 = a1 + r.uniform(0.1, 2);
    double got = bxdecay0::decay0_dgmlt1(fsub_outer, a1, b1, ni, ng, x, &np), want = mono_int(np.k1, a1, b1) * mono_int(np.k2, np.a2, np.b2);
    snprintf(d, sizeof d, "nested dgmlt1(dgmlt2) x1^%d x2^%d NG=%d/%d NI=%d/%d", np.k1, np.k2, ng, ng2, ni, np.ni2); res.desc = d;
    if (std::fabs(got - want) > 2e-13 * std::fabs(want)) { res.ok = false; res.cls = "dgmlt-nested-exactness"; res.msg = res.desc + ": got " + jnum(got) + " want " + jnum(want); }
    res.nt = "nested|NG" + std::to_string(ng) + "/" + std::to_string(ng2) + "|k" + std::to_string(np.k1 / 4) + "/" + std::to_string(np.k2 / 4);
  }
  return res;
}

// ---------------------------------------------------------------- adaptive quadrature (decay0_gauss)
struct FamPar { int fam; double p1, p2, p3; std::vector<double> coef; double scale = 1.0; };
static double fam_f1(double x, void * vp);
static double fam_f(double x, void * vp) { return ((FamPar *)vp)->scale * fam_f1(x, vp); }
static double fam_f1(double x, void * vp)
{
  FamPar * f = (FamPar *)vp;
  switch (f->fam) {
  case 0: { double s = 0; for (size_t i = f->coef.size(); i-- > 0;) s = s * x + f->coef[i]; return s; }
  case 1: return f->p1 * std::exp(f->p2 * x);
  case 2: return f->p1 + std::sin(f->p2 * x + f->p3);
  case 3: return std::exp(-0.5 * (x - f->p2) * (x - f->p2) / (f->p3 * f->p3));
  default: return f->p3 / ((x - f->p2) * (x - f->p2) + f->p3 * f->p3);
  }
}
static double fam_I1(const FamPar & f, double a, double b);
static double fam_I(const FamPar & f, double a, double b) { return f.scale * fam_I1(f, a, b); }
static double fam_I1(const FamPar & f, double a, double b)
{
  switch (f.fam) {
  case 0: { double s = 0; for (size_t i = 0; i < f.coef.size(); i++) s += f.coef[i] * (std::pow(b, i + 1) - std::pow(a, i + 1)) / (i + 1); return s; }
  case 1: return f.p1 / f.p2 * (std::exp(f.p2 * b) - std::exp(f.p2 * a));
  case 2: return f.p1 * (b - a) - (std::cos(f.p2 * b + f.p3) - std::cos(f.p2 * a + f.p3)) / f.p2;
  case 3: return f.p3 * std::sqrt(M_PI / 2) * (std::erf((b - f.p2) / (f.p3 * M_SQRT2)) - std::erf((a - f.p2) / (f.p3 * M_SQRT2)));
  default: return std::atan((b - f.p2) / f.p3) - std::atan((a - f.p2) / f.p3);
  }
}
static Res case_gauss(Rng & r)
{
  Res res; FamPar f; f.fam = r.range(0, 4); double a = r.uniform(-2, 2), b = a + r.uniform(0.2, 4); double L = b - a;
  double eps = std::pow(10.0, -r.range(3, 8));
  switch (f.fam) {
  case 0: { int deg = r.range(0, 10); for (int i = 0; i <= deg; i++) f.coef.push_back(r.uniform(0.1, 1)); if (a < 0) { a = r.uniform(0, 1); b = a + L; } break; } // positive coefficients on x>=0: |I| is not a small difference
  case 1: f.p1 = r.uniform(0.5, 2); f.p2 = r.uniform(-3, 3); if (std::fabs(f.p2) < 0.05) f.p2 = 0.5; break;
  case 2: f.p1 = r.uniform(1.5, 3); f.p2 = (r.chance(0.5) ? r.uniform(0.4, 12) : r.uniform(12, 40)) / L; f.p3 = r.uniform(0, 6); break; // offset keeps |I| large; up to ~6 periods: needs the 43/87-point levels (measured: rel. error < 1e-14 up to 60 rad)
  case 3: f.p2 = a + r.uniform(0.2, 0.8) * L; f.p3 = (r.chance(0.5) ? r.uniform(0.10, 0.15) : r.uniform(0.15, 1.0)) * L; break; // width >= 0.10 L: measured worst error/tolerance over 3.6 M cases, eps 1e-3..1e-8: 2e-3 there; below 0.08 L the NON-adaptive rule's error estimate is fooled by the peak (ratio 0.4 at 0.07 L, 18 at 0.04 L) - not a 'smooth integrand' for this kernel
  default: f.p2 = a + r.uniform(0.2, 0.8) * L; f.p3 = r.uniform(0.25, 1.0) * L; break;                             // half-width >= 0.25 L
  }
  // the tolerance asked for is RELATIVE: the contract is scale invariant.  Half of the cases multiply the integrand by 10^U(-30,6)
  // (the library's own integrands - phase-space densities - are far from O(1))
  int sdec = 0; if (r.chance(0.5)) { sdec = r.range(-30, 6); f.scale = std::pow(10.0, sdec) * r.uniform(1, 10); }
  if (r.chance(0.3)) { FamPar d2 = f; d2.p1 = f.p1 * r.uniform(1.2, 2); d2.p2 = f.p2 * r.uniform(0.5, 0.9); d2.scale = f.scale * r.uniform(2, 9); for (auto & cf : d2.coef) cf *= r.uniform(0.3, 3); (void)bxdecay0::decay0_gauss(fam_f, a, b, eps, &d2); res.decoy = true; } // decoy: same (f, a, b, eps), other parameter block
  double want = fam_I(f, a, b), got = bxdecay0::decay0_gauss(fam_f, a, b, eps, &f);
  static const char * fn[] = {"polynomial", "exp", "offset+sin", "gaussian", "lorentzian"};
  char d[200]; snprintf(d, sizeof d, "decay0_gauss %s (x %.3g) on [%.5g,%.5g] eps=%g", fn[f.fam], f.scale, a, b, eps); res.desc = d;
  if (!(std::fabs(got - want) <= eps * std::fabs(want) + 1e-15 * std::fabs(want))) { res.ok = false; res.cls = std::string("gauss-tolerance-") + fn[f.fam]; res.msg = res.desc + ": got " + jnum(got) + " want " + jnum(want) + " rel.err " + jnum(std::fabs(got - want) / std::fabs(want)); }
  res.nt = std::string("gauss|") + fn[f.fam] + "|eps" + std::to_string((int)std::lround(-std::log10(eps))) + (f.scale == 1.0 ? "|unscaled" : "|scale1e" + std::to_string(sdec / 6 * 6)) + (res.decoy ? "|after-decoy" : "");
  return res;
}

// ---------------------------------------------------------------- Simpson
static Res case_tsimpr(Rng & r)
{
  Res res; FamPar f; f.fam = 0; int deg = r.range(0, 3); for (int i = 0; i <= deg; i++) f.coef.push_back(r.uniform(-2, 2));
  double a = r.uniform(-3, 3); int quads = r.range(1, 60); double h = std::pow(10.0, r.uniform(-3, 0)); double b = a + 4 * quads * h; // (b-a)/h = 4q: the documented step count of decay0_tsimpr
  // the routine also accepts a ratio that is only near 4q (it adds 0.25 and truncates, then integrates over [a,b] with its own step): whenever
  // it accepts the call, the value it returns is Simpson's sum over [a,b] and must still be exact for cubics; a refusal is fine
  bool off_grid = r.chance(0.3); if (off_grid) b = a + (4 * quads + r.uniform(-0.2, 1.7)) * h;
  double got, want = fam_I(f, a, b);
  if (r.chance(0.3)) { FamPar d2 = f; for (auto & cf : d2.coef) cf = r.uniform(-2, 2); try { (void)bxdecay0::decay0_tsimpr(fam_f, a, b, h, &d2); } catch (std::exception &) {} res.decoy = true; } // decoy: same (f, a, b, h), other parameter block
  try { got = bxdecay0::decay0_tsimpr(fam_f, a, b, h, &f); } catch (std::exception &) { res.nt = "tsimpr|refused-step-count"; res.desc = "tsimpr refused"; return res; }
  double sc = 0; for (size_t i = 0; i < f.coef.size(); i++) sc += std::fabs(f.coef[i]) * std::pow(std::max(std::fabs(a), std::fabs(b)), i) * (b - a);
  char d[160]; snprintf(d, sizeof d, "tsimpr degree %d on [%.5g,%.5g] h=%.4g", deg, a, b, h); res.desc = d;
  if (std::fabs(got - want) > 1e-12 * sc + 1e-300) { res.ok = false; res.cls = "tsimpr-cubic-exactness"; res.msg = res.desc + ": got " + jnum(got) + " want " + jnum(want); }
  res.nt = "tsimpr|deg" + std::to_string(deg) + "|q" + std::to_string(std::min(quads, 5)) + (off_grid ? "|near-4q" : "") + (res.decoy ? "|after-decoy" : "");
  return res;
}

// ---------------------------------------------------------------- golden section
struct UniPar { int fam; double c, w, sign; };
static double uni_f(double x, void * vp)
{
  UniPar * u = (UniPar *)vp; double v;
  switch (u->fam) { case 0: v = -(x - u->c) * (x - u->c); break; case 1: v = std::exp(-0.5 * (x - u->c) * (x - u->c) / (u->w * u->w)); break; case 2: v = -std::fabs(x - u->c); break; default: v = std::cos((x - u->c) / u->w); }
  return u->sign * v + 0.3;
}
static Res case_tgold(Rng & r)
{
  Res res; UniPar u; u.fam = r.range(0, 3); double a = r.uniform(-5, 5), L = std::pow(10.0, r.uniform(-1, 1)), b = a + L; u.c = a + r.uniform(0.02, 0.98) * L; u.w = L * r.uniform(0.3, 2);
  int minmax = r.range(1, 2); u.sign = minmax == 2 ? 1 : -1; // the families have a maximum at c; flipped for minimum search
  double eps = L * std::pow(10.0, -r.uniform(2, 5)); double xe = 0, fe = 0;
  if (u.fam == 3) u.w = L / 2.5; // |x-c|/w < pi within the interval: unimodal
  if (r.chance(0.3)) { UniPar d2 = u; d2.c = a + r.uniform(0.02, 0.98) * L; double xd = 0, fd = 0; bxdecay0::decay0_tgold(a, 0.5 * (a + b), b, uni_f, eps, minmax, xd, fd, &d2); res.decoy = true; } // decoy: same (a, b, c, f, eps, minmax), extremum elsewhere
  bxdecay0::decay0_tgold(a, 0.5 * (a + b), b, uni_f, eps, minmax, xe, fe, &u);
  static const char * fn[] = {"parabola", "gaussian", "abs", "cos"};
  char d[200]; snprintf(d, sizeof d, "tgold %s %s on [%.5g,%.5g] extremum at %.6g eps=%.3g", minmax == 2 ? "max" : "min", fn[u.fam], a, b, u.c, eps); res.desc = d;
  if (!(std::fabs(xe - u.c) <= eps)) { res.ok = false; res.cls = std::string("tgold-") + fn[u.fam]; res.msg = res.desc + ": returned x=" + jnum(xe) + " |x-x*|=" + jnum(std::fabs(xe - u.c)); }
  else if (fe != uni_f(xe, &u)) { res.ok = false; res.cls = "tgold-fextr"; res.msg = res.desc + ": fextr is not f(xextr)"; }
  res.nt = std::string("tgold|") + fn[u.fam] + "|" + (minmax == 2 ? "max" : "min") + (res.decoy ? "|after-decoy" : "");
  return res;
}

// ---------------------------------------------------------------- divided differences
static Res case_divdif(Rng & r)
{
  Res res; int mm = r.range(1, 10); int nn = r.range(mm + 1, 48); bool decreasing = r.chance(0.5); int deg = r.range(0, mm);
  std::vector<double> A(nn), F(nn), coef; for (int i = 0; i <= deg; i++) coef.push_back(r.uniform(-1, 1));
  double x0 = r.uniform(-1, 1), step = r.uniform(0.05, 0.3);
  for (int i = 0; i < nn; i++) { double x = x0 + step * i * (1 + 0.1 * std::sin(i * 1.7)); A[decreasing ? nn - 1 - i : i] = x; }
  auto P = [&](double x) { double s = 0; for (size_t i = coef.size(); i-- > 0;) s = s * x + coef[i]; return s; };
  for (int i = 0; i < nn; i++) F[i] = P(A[i]);
  double lo = std::min(A[0], A[nn - 1]), hi = std::max(A[0], A[nn - 1]); double X = r.uniform(lo, hi);
  double got = bxdecay0::decay0_divdif(F.data(), A.data(), nn, X, mm), want = P(X);
  double sc = 0; for (size_t i = 0; i < coef.size(); i++) sc += std::fabs(coef[i]) * std::pow(std::max(std::fabs(lo), std::fabs(hi)), i);
  char d[200]; snprintf(d, sizeof d, "divdif degree %d MM=%d NN=%d %s table x=%.6g", deg, mm, nn, decreasing ? "decreasing" : "increasing", X); res.desc = d;
  if (std::fabs(got - want) > 1e-10 * std::max(sc, 1e-3)) { res.ok = false; res.cls = std::string("divdif-") + (decreasing ? "decreasing" : "increasing"); res.msg = res.desc + ": got " + jnum(got) + " want " + jnum(want); }
  res.nt = std::string("divdif|") + (decreasing ? "dec" : "inc") + "|M" + std::to_string(mm) + "|d" + std::to_string(deg);
  return res;
}

// ---------------------------------------------------------------- Euler rotation
static Res case_rotate(Rng & r)
{
  Res res; double phi = r.uniform(-7, 7), th = r.uniform(-4, 4), psi = r.uniform(-7, 7);
  if (r.chance(0.2)) { phi = (M_PI / 2) * r.range(-4, 4); } if (r.chance(0.2)) th = (M_PI / 2) * r.range(-2, 2); if (r.chance(0.2)) psi = 0;
  bxdecay0::vector3 v = bxdecay0::make_vector3(r.uniform(-2, 2), r.uniform(-2, 2), r.uniform(-2, 2)), w = bxdecay0::make_vector3(r.uniform(-2, 2), r.uniform(-2, 2), r.uniform(-2, 2));
  // decoy call: the same routine immediately before with two of the three angles bit-identical and the third different (or with the same angles and
  // another vector): a rotation remembered between calls and keyed on part of its arguments leaks into the call under test
  if (r.chance(0.4)) { int which = r.range(0, 3); double a1 = phi, a2 = th, a3 = psi, other = r.chance(0.5) ? 0.0 : r.uniform(-7, 7); if (which == 0) a1 = other; else if (which == 1) a2 = other; else if (which == 2) a3 = other; (void)bxdecay0::rotate_zyz(w, a1, a2, a3); res.decoy = true; }
  bxdecay0::vector3 rv = bxdecay0::rotate_zyz(v, phi, th, psi), rw = bxdecay0::rotate_zyz(w, phi, th, psi);
  // independent R = Rz(phi) Ry(theta) Rz(psi)
  auto Rz = [](double a, const double * p, double * q) { q[0] = std::cos(a) * p[0] - std::sin(a) * p[1]; q[1] = std::sin(a) * p[0] + std::cos(a) * p[1]; q[2] = p[2]; };
  auto Ry = [](double a, const double * p, double * q) { q[0] = std::cos(a) * p[0] + std::sin(a) * p[2]; q[1] = p[1]; q[2] = -std::sin(a) * p[0] + std::cos(a) * p[2]; };
  double p0[3] = {v.x, v.y, v.z}, p1[3], p2[3], p3[3]; Rz(psi, p0, p1); Ry(th, p1, p2); Rz(phi, p2, p3);
  char d[160]; snprintf(d, sizeof d, "rotate_zyz phi=%.5g theta=%.5g psi=%.5g", phi, th, psi); res.desc = d;
  double n = std::sqrt(v.x * v.x + v.y * v.y + v.z * v.z) + 1e-300;
  if (std::fabs(rv.x - p3[0]) > 1e-12 * n || std::fabs(rv.y - p3[1]) > 1e-12 * n || std::fabs(rv.z - p3[2]) > 1e-12 * n) { res.ok = false; res.cls = "rotate-composition"; res.msg = res.desc + ": differs from Rz(phi)Ry(theta)Rz(psi)"; }
  double d0 = v.x * w.x + v.y * w.y + v.z * w.z, d1 = rv.x * rw.x + rv.y * rw.y + rv.z * rw.z;
  if (std::fabs(d0 - d1) > 1e-12 * (n * (std::sqrt(w.x * w.x + w.y * w.y + w.z * w.z)) + 1e-300)) { res.ok = false; res.cls = "rotate-orthonormal"; res.msg = res.desc + ": scalar product not preserved"; }
  // proper rotation: determinant +1 (images of the basis)
  bxdecay0::vector3 ex = bxdecay0::rotate_zyz(bxdecay0::make_vector3(1, 0, 0), phi, th, psi), ey = bxdecay0::rotate_zyz(bxdecay0::make_vector3(0, 1, 0), phi, th, psi), ez = bxdecay0::rotate_zyz(bxdecay0::make_vector3(0, 0, 1), phi, th, psi);
  double det = ex.x * (ey.y * ez.z - ey.z * ez.y) - ex.y * (ey.x * ez.z - ey.z * ez.x) + ex.z * (ey.x * ez.y - ey.y * ez.x);
  if (std::fabs(det - 1) > 1e-12) { res.ok = false; res.cls = "rotate-orthonormal"; res.msg = res.desc + ": determinant " + jnum(det); }
  res.nt = std::string("rotate|") + (psi == 0 ? "psi0" : "psi") + "|" + std::to_string((int)std::floor(th)) + (res.decoy ? "|after-decoy" : ""); return res;
}

// ---------------------------------------------------------------- Fermi function
static std::complex<double> lgamma_lanczos(std::complex<double> z)
{ // Lanczos g=7, n=9 (Numerical Recipes / Godfrey coefficients); valid for Re z > 0.5 (reflection not needed here: Re z in (0.6,1])
  static const double c[] = {0.99999999999980993, 676.5203681218851, -1259.1392167224028, 771.32342877765313, -176.61502916214059, 12.507343278686905, -0.13857109526572012, 9.9843695780195716e-6, 1.5056327351493116e-7};
  z -= 1.0; std::complex<double> x = c[0]; for (int i = 1; i < 9; i++) x += c[i] / (z + (double)i);
  std::complex<double> t = z + 7.5;
  return 0.5 * std::log(2 * M_PI) + (z + 0.5) * std::log(t) - t + std::log(x);
}
static Res case_fermi(Rng & r)
{
  Res res; int Z = r.range(1, 100); double z = r.chance(0.5) ? Z : -Z; double E = r.chance(0.3) ? 50e-6 * std::pow(10.0, r.uniform(0, 2)) : std::pow(10.0, r.uniform(std::log10(50e-6), 1.0));
  if (r.chance(0.05)) E = std::pow(10.0, r.uniform(-9, std::log10(50e-6))); // below 50 eV the function is evaluated at 50 eV
  double Ee = std::max(E, 50e-6);
  double alfaz = z / 137.036, w = Ee / 0.51099906 + 1., p = std::sqrt(w * w - 1.), y = alfaz * w / p, g = std::sqrt(1. - alfaz * alfaz);
  std::complex<double> lg = lgamma_lanczos(std::complex<double>(g, y));
  double want = std::pow(p, 2. * g - 2.) * std::exp(M_PI * y + 2. * lg.real());
  double got = bxdecay0::decay0_fermi(z, E);
  char d[160]; snprintf(d, sizeof d, "decay0_fermi(Z=%g, E=%.6g MeV)", z, E); res.desc = d;
  if (!(std::fabs(got - want) <= 1e-9 * std::fabs(want))) { res.ok = false; res.cls = "fermi"; res.msg = res.desc + ": got " + jnum(got) + " independent evaluation " + jnum(want) + " rel " + jnum(std::fabs(got - want) / std::fabs(want)); }
  res.nt = std::string("fermi|") + (z > 0 ? "e-" : "e+") + "|Z" + std::to_string(Z / 10) + "|E" + std::to_string((int)std::floor(std::log10(Ee))); return res;
}

int main(int argc, char ** argv)
{
  Args a(argc, argv);
  Report rep; rep.prop = "C16"; Known known; if (a.has("known")) known.load(a.s("known"));
  std::string replaydir = a.s("replaydir", "replay");
  int out_fd = dup(1); silence_stdio(true, false);
  static std::ofstream devnull("/dev/null"); if (!a.has("verbose")) { std::cerr.rdbuf(devnull.rdbuf()); std::clog.rdbuf(devnull.rdbuf()); }
  FILE * res = fdopen(out_fd, "w");
  typedef Res (*CaseFn)(Rng &);
  static const struct { const char * name; CaseFn fn; } KERN[] = {{"dgmlt", case_dgmlt}, {"gauss", case_gauss}, {"tsimpr", case_tsimpr}, {"tgold", case_tgold}, {"divdif", case_divdif}, {"rotate", case_rotate}, {"fermi", case_fermi}};
  const int NK = 7;
  if (a.has("replay")) {
    JV j = jload(a.s("replay")); int k = (int)j.n("kernel", 0); uint64_t cs = strtoull(j.s("case_seed").c_str(), nullptr, 10);
    Rng r(cs); Res x = KERN[k].fn(r); dprintf(out_fd, x.ok ? "REPLAY-PASS %s\n" : "REPLAY-FAIL class=%s %s\n", x.ok ? x.desc.c_str() : x.cls.c_str(), x.msg.c_str()); return x.ok ? 0 : 1;
  }
  uint64_t seed = a.i("seed", 1); int shard = a.i("shard", 0), nsh = a.i("nshards", 1); long long cases = a.i("cases", 100000);
  std::map<std::string, int> per;
  try {
    for (long long i = shard; i < cases; i += nsh) {
      int k = (int)(i % NK); uint64_t cs = mix(mix(seed, 0xC16), i);
      Rng r(cs); Res x = KERN[k].fn(r); rep.evaluations++; rep.label(KERN[k].name);
      if (!x.ok) {
        std::string sig = "C16|" + x.cls; std::string kid = known.match("C16", sig);
        if (!kid.empty()) { rep.known[kid]++; continue; }
        if (per[sig]++) { rep.count("further_failures_same_class"); continue; }
        std::string path = replaydir + "/C16-" + hash_name(sig) + ".json";
        std::ofstream(path) << "{\"property\":\"C16\",\"kernel\":" << k << ",\"case_seed\":\"" << cs << "\",\"sig\":" << jstr(sig) << ",\"msg\":" << jstr(x.msg) << "}\n";
        rep.failures.push_back({sig, x.msg, path}); continue;
      }
      rep.nt(x.nt);
      if (rep.samples.size() < 7 && i % 997 < NK && (int)(i % 997) == k) rep.sample(jstr(x.desc));
    }
  } catch (std::exception & e) { fprintf(res, "HARNESS-ERROR %s\n", e.what()); fflush(res); return 2; }
  rep.write(a.s("out", "report.json"));
  fprintf(res, "done evaluations=%llu failures=%zu\n", (unsigned long long)rep.evaluations, rep.failures.size()); fflush(res);
  return 0;
}
