// g4check.cc -- C17: the Geant4 primary-generator action hands over each particle unchanged and validates like the core.
// The extension sources (primary_generator_action.cc, unique_point_vertex_generator.cc, vertex_generator_interface.cc) are
// compiled UNCHANGED against the stand-in in /verif/g4stub.
#include <cmath>
#include <iostream>
#include <random>
#include <unistd.h>
#include <bxdecay0/decay0_generator.h>
#include <bxdecay0/std_random.h>
#include <bxdecay0/bb_utils.h>
#include <bxdecay0/mdl_event_op.h>
#include <bxdecay0_g4/primary_generator_action.hh>
#include <bxdecay0_g4/unique_point_vertex_generator.hh>
#include "../engine/vf.hpp"
#include "catalog.hpp"
using namespace vf;
typedef bxdecay0_g4::PrimaryGeneratorAction PGA;

struct Case { PGA::ConfigurationInterface cf; int vkind = 0; /*0 none 1 unique 2 scripted 3 exhausted 4 heap generator lent by reference 5 heap generator handed over by pointer*/ G4ThreeVector pos; int nev = 1; std::string nclass; bool detach_first = false; bool touch_gun = false; /* between two events the application touches the gun through GetParticleGun(): number of particles, polarisation, position, time */ int route = 0; /* how the request reaches the action: 0 SetConfiguration; 1 GrabConfiguration() = request, then ApplyConfiguration(); 2 SetConfiguration then an explicit ApplyConfiguration() */ };
// a vertex generator that records its own destruction: one LENT by reference must outlive the action, whatever was attached or detached before
struct LentVG : public bxdecay0_g4::VertexGeneratorInterface { G4ThreeVector p; int * deaths; LentVG(const G4ThreeVector & p_, int * d) : p(p_), deaths(d) {} ~LentVG() override { (*deaths)++; } void ShootVertex(G4ThreeVector & v) override { v = p; } };
struct VGBook { std::vector<LentVG *> lent; std::vector<int *> lent_deaths; };

struct ScriptedVG : public bxdecay0_g4::VertexGeneratorInterface
{
  std::vector<G4ThreeVector> seq; size_t k = 0; bool exhausted = false;
  bool HasNextVertex() const override { return !exhausted && k < seq.size(); }
  void ShootVertex(G4ThreeVector & v) override { if (k < seq.size()) v = seq[k++]; }
};

static std::string cfg_json(const Case & c)
{
  char b[600]; const auto & f = c.cf;
  snprintf(b, sizeof b, "{\"category\":\"%s\",\"nuclide\":\"%s\",\"seed\":%d,\"mode\":%d,\"level\":%d,\"emin\":%g,\"emax\":%g,\"mdl\":%s,\"mdl_name\":\"%s\",\"mdl_rank\":%d,\"mdl_ap\":%g,\"mdl_ap2\":%g,\"vertex\":%d,\"nev\":%d}",
           f.decay_category.c_str(), f.nuclide.c_str(), f.seed, f.dbd_mode, f.dbd_level, f.dbd_min_energy_MeV, f.dbd_max_energy_MeV, f.use_mdl ? "true" : "false", f.mdl_target_name.c_str(), f.mdl_target_rank, f.mdl_cone_aperture, f.mdl_cone_aperture2, c.vkind, c.nev);
  return b;
}

// what the core tools do with the same request (bxdecay0::driver's checks + decay0_generator::initialize), and its events
static bool core_run(const Case & c, std::vector<bxdecay0::event> & evs, std::string & why)
{
  const auto & f = c.cf;
  try {
    bxdecay0::decay0_generator g; std::default_random_engine eng((unsigned int)f.seed); bxdecay0::std_random prng(eng);
    if (f.decay_category == "dbd") {
      if (!bxdecay0::dbd_isotopes().count(f.nuclide)) { why = "unsupported dbd isotope"; return false; }
      if (f.dbd_mode < bxdecay0::DBDMODE_MIN || f.dbd_mode > bxdecay0::DBDMODE_MAX) { why = "mode"; return false; }
      if (f.dbd_level < 0) { why = "level"; return false; }
      g.set_decay_category(bxdecay0::decay0_generator::DECAY_CATEGORY_DBD); g.set_decay_isotope(f.nuclide); g.set_decay_dbd_level(f.dbd_level); g.set_decay_dbd_mode((bxdecay0::dbd_mode_type)f.dbd_mode);
      bool hmin = f.dbd_min_energy_MeV > 0, hmax = f.dbd_max_energy_MeV > 0;
      if (hmin || hmax) g.set_decay_dbd_esum_range(hmin ? f.dbd_min_energy_MeV : 0.0, hmax ? f.dbd_max_energy_MeV : 5000.0);
    } else if (f.decay_category == "background") {
      if (!bxdecay0::background_isotopes().count(f.nuclide)) { why = "unsupported background isotope"; return false; }
      g.set_decay_category(bxdecay0::decay0_generator::DECAY_CATEGORY_BACKGROUND); g.set_decay_isotope(f.nuclide);
    } else { why = "category"; return false; }
    if (f.use_mdl) {
      auto op = std::make_shared<bxdecay0::momentum_direction_lock_event_op>();
      bxdecay0::momentum_direction_lock_event_op::config_type mc; mc.particle_label = f.mdl_target_name; mc.target_particle_rank = f.mdl_target_rank < 0 ? -1 : f.mdl_target_rank;
      mc.cone_phi_degree = f.mdl_cone_longitude; mc.cone_theta_degree = f.mdl_cone_colatitude; mc.cone_aperture_degree = f.mdl_cone_aperture; mc.cone_aperture2_degree = f.mdl_cone_aperture2; mc.error_on_missing_particle = f.mdl_error_on_missing_particle;
      op->set(mc); g.add_operation(op);
    }
    g.initialize(prng);
    // a generated window can cut the spectrum down to a sliver: sampling inside it is slower by the full-range/window ratio by design
    // (C03/C04 treat it the same way) - such a request is initialised on both sides but not sampled
    if (f.decay_category == "dbd" && g.get_to_all_events() > 200.0) { why = "window-ratio-above-200"; return false; }
    for (int k = 0; k < c.nev; k++) { bxdecay0::event e; g.shoot(prng, e); evs.push_back(e); }
  } catch (std::exception & e) { why = e.what(); return false; }
  return true;
}

struct Res { bool ok = true; std::string cls, msg, nt; };

// A generated window can leave a sliver below the end point where the tabulated spectrum is ~1e-10 of its maximum: the reference algorithm
// samples against the GLOBAL maximum, so even the one event drawn during initialisation takes practically forever (by design; C03/C04 keep
// away from such windows by construction).  Requests with a window are first initialised in a child under a 4 s alarm; if that does not
// finish the request is skipped on both sides.
#include <sys/wait.h>
static bool init_finishes(const Case & c)
{
  const auto & f = c.cf;
  if (!(f.decay_category == "dbd" && (f.dbd_min_energy_MeV > 0 || f.dbd_max_energy_MeV > 0))) return true;
  pid_t pid = fork(); if (pid < 0) return true;
  if (pid == 0) { alarm(4); std::vector<bxdecay0::event> evs; std::string why; Case c0 = c; c0.nev = 0; core_run(c0, evs, why); _exit(0); }
  int st = 0; waitpid(pid, &st, 0); return !(WIFSIGNALED(st) && WTERMSIG(st) == SIGALRM);
}

// One action object is driven through a SEQUENCE of requests (SetConfiguration, optionally DestroyConfiguration in between):
// every step must behave as a fresh action would for that request.
static Res run_steps_on(PGA & action, VGBook & book, const std::vector<Case> & steps, const std::vector<int> & destroy_before);
static Res run_steps(const std::vector<Case> & steps, const std::vector<int> & destroy_before)
{
  VGBook book; Res r;
  { PGA action(0); r = run_steps_on(action, book, steps, destroy_before); }   // the action is destroyed here
  for (size_t i = 0; i < book.lent.size(); i++) {
    if (*book.lent_deaths[i] != 0) { if (r.ok) { r.ok = false; r.cls = "lent-vertex-generator-deleted"; r.msg = "a vertex generator passed BY REFERENCE was deleted by the action (it stays the caller's; only one passed by pointer is handed over)"; } }
    else delete book.lent[i];
    delete book.lent_deaths[i];
  }
  return r;
}
static Res run_steps_on(PGA & action, VGBook & book, const std::vector<Case> & steps, const std::vector<int> & destroy_before)
{
  Res r; auto fail = [&](const std::string & cls, const std::string & m) { if (r.ok) { r.ok = false; r.cls = cls; r.msg = m; } return r; };
  ScriptedVG svg; bxdecay0_g4::UniquePointVertexGenerator upvg;
  std::string nt;
  for (size_t si = 0; si < steps.size(); si++) {
    const Case & c = steps[si];
    std::string stepname = steps.size() > 1 ? "step " + std::to_string(si) + " of a reused action: " : "";
    if (!init_finishes(c)) { nt += "skipped-sliver-window;"; action.DestroyConfiguration(); continue; }
    std::vector<bxdecay0::event> core; std::string why; bool core_ok = core_run(c, core, why);
    if (why == "window-ratio-above-200") { nt += "skipped-sliver-window;"; action.DestroyConfiguration(); continue; }
    G4RunManager::GetRunManager()->abort_count = 0; G4StubExceptions::count() = 0;
    std::vector<G4Event> evs(c.nev); bool threw = false; std::string what; std::vector<G4ThreeVector> vtx;
    if (destroy_before[si]) action.DestroyConfiguration();
    // routes 1 and 2 only for requests the interface itself calls valid (for the others ApplyConfiguration() only prints an error: nothing the
    // property speaks about); a request handed over through GrabConfiguration() + ApplyConfiguration() must be taken up like any other
    if (c.route == 1 && c.cf.is_valid()) { action.GrabConfiguration() = c.cf; action.ApplyConfiguration(); nt += "grab+apply;"; }
    else if (c.route == 2 && c.cf.is_valid()) { action.SetConfiguration(c.cf); action.ApplyConfiguration(); nt += "set+apply;"; }
    else action.SetConfiguration(c.cf);
    svg.seq.clear(); svg.k = 0; svg.exhausted = false; upvg.SetSourcePosition(c.pos);
    if (c.detach_first) action.SetVertexGenerator((bxdecay0_g4::VertexGeneratorInterface *)nullptr);   // detach whatever was attached ("origin if none")
    if (c.vkind == 1) action.SetVertexGenerator(upvg);
    else if (c.vkind == 4) { int * d = new int(0); LentVG * g = new LentVG(c.pos, d); book.lent.push_back(g); book.lent_deaths.push_back(d); action.SetVertexGenerator(*g); }
    else if (c.vkind == 5) { static int sink = 0; action.SetVertexGenerator(new LentVG(c.pos, &sink)); }
    else if (c.vkind >= 2) { for (int k = 0; k < c.nev; k++) svg.seq.push_back(G4ThreeVector(c.pos.x() + k, c.pos.y() - 2 * k, c.pos.z() + 0.5 * k)); if (c.vkind == 3) svg.exhausted = true; action.SetVertexGenerator(svg); }
    else { static struct Origin : public bxdecay0_g4::VertexGeneratorInterface { void ShootVertex(G4ThreeVector & v) override { v = G4ThreeVector(0, 0, 0); } } origin; if (si > 0 && !c.detach_first) action.SetVertexGenerator(origin); }
    for (int k = 0; k < c.nev; k++) {
      vtx.push_back(c.vkind == 0 ? G4ThreeVector(0, 0, 0) : ((c.vkind == 1 || c.vkind >= 4) ? c.pos : svg.seq[k]));
      if (c.touch_gun && k > 0 && action.GetParticleGun()) { G4ParticleGun * gun = action.GetParticleGun(); gun->SetNumberOfParticles(2 + k % 3); gun->SetParticlePolarization(G4ThreeVector(0, 1, 0)); gun->SetParticlePosition(G4ThreeVector(7, 7, 7)); gun->SetParticleTime(123.0); }
      try { action.GeneratePrimaries(&evs[k]); } catch (std::exception & e) { threw = true; what = e.what(); break; }
    }
    int aborts = G4RunManager::GetRunManager()->abort_count; size_t nprim = 0; for (auto & e : evs) nprim += e.primaries.size();
    bool action_refused = threw || aborts > 0;
    if (c.vkind == 3) {
      if (core_ok && c.cf.seed >= 1 && aborts == 0 && !threw) return fail("exhausted-vertex-not-aborted", stepname + "vertex generator has no vertex left but the run is not aborted");
      nt += "exhausted|" + c.nclass + ";"; continue;
    }
    if (!core_ok) {
      if (!action_refused) return fail("accepts-what-core-refuses", stepname + "core tools refuse this request (" + why + ") but the action generated " + std::to_string(nprim) + " primaries without aborting the run: " + cfg_json(c));
      if (nprim > 0) return fail("primaries-on-refusal", stepname + "request is refused (" + why + ") but " + std::to_string(nprim) + " primaries were created");
      nt += "refused|" + c.nclass + "|" + std::string(c.cf.decay_category) + ";"; continue;
    }
    if (action_refused) {
      if (c.cf.seed < 1) { nt += "seed-refused|" + c.nclass + ";"; continue; } // the extension documents seed >= 1
      return fail("refuses-what-core-accepts", stepname + "core tools accept this request but the action refuses it (" + (threw ? what : std::string("AbortRun")) + "): " + cfg_json(c));
    }
    for (int k = 0; k < c.nev; k++) {
      const auto & ps = core[k].get_particles(); const auto & pr = evs[k].primaries;
      if (ps.size() != pr.size()) return fail("primary-count", stepname + "event " + std::to_string(k) + ": " + std::to_string(pr.size()) + " primaries for " + std::to_string(ps.size()) + " BxDecay0 particles: " + cfg_json(c));
      for (size_t i = 0; i < ps.size(); i++) {
        const char * want = ps[i].is_electron() ? "e-" : ps[i].is_positron() ? "e+" : ps[i].is_gamma() ? "gamma" : "alpha";
        if (pr[i].def->name != want) return fail("species", stepname + "primary " + std::to_string(i) + " is a " + pr[i].def->name + ", BxDecay0 particle is " + want);
        double p[3] = {ps[i].get_px(), ps[i].get_py(), ps[i].get_pz()}, q[3] = {pr[i].momentum.x() / CLHEP::MeV, pr[i].momentum.y() / CLHEP::MeV, pr[i].momentum.z() / CLHEP::MeV}; double n = ps[i].get_p();
        for (int d = 0; d < 3; d++) if (std::fabs(p[d] - q[d]) > 1e-12 * n + 1e-300) return fail("momentum", stepname + "primary " + std::to_string(i) + " momentum component " + std::to_string(d) + " = " + jnum(q[d]) + " MeV, the core generator's particle for the same request has " + jnum(p[d]));
        double t = pr[i].time / CLHEP::second;
        if (std::fabs(t - ps[i].get_time()) > 1e-12 * std::fabs(ps[i].get_time()) + 1e-300) return fail("time", stepname + "primary " + std::to_string(i) + " time " + jnum(t) + " s, BxDecay0 particle has " + jnum(ps[i].get_time()) + " s");
        if (pr[i].polarization.x() != 0 || pr[i].polarization.y() != 0 || pr[i].polarization.z() != 0) return fail("polarization", stepname + "primary " + std::to_string(i) + " of event " + std::to_string(k) + " carries a polarisation: BxDecay0 particles have none (left over from what the application set on the gun between two events)");
        if (pr[i].position.x() != vtx[k].x() || pr[i].position.y() != vtx[k].y() || pr[i].position.z() != vtx[k].z()) return fail("vertex", stepname + "primary " + std::to_string(i) + " of event " + std::to_string(k) + " is not at the vertex supplied by the vertex generator");
      }
    }
    nt += "handover|" + c.nclass + "|" + std::string(c.cf.decay_category) + "|v" + std::to_string(c.vkind) + "|" + (c.cf.use_mdl ? "mdl" : "-") + ";";
  }
  r.nt = (steps.size() > 1 ? "reuse" + std::to_string(steps.size()) + ":" : "") + nt;
  return r;
}

static Case gen_case(uint64_t h)
{
  Rng r(h); Case c; auto & f = c.cf;
  static const std::vector<std::string> bkg = catalog::background_published(), dbd = catalog::dbd_published();
  static const struct { const char * n; int l, m; } vd[] = {{"Mo100", 0, 1}, {"Mo100", 1, 8}, {"Se82", 0, 4}, {"Nd150", 0, 20}, {"Cd106", 0, 9}, {"Ru96", 0, 12}, {"Zr96", 0, 1}, {"Ca48", 1, 3}, {"Rn222", 0, 1}, {"Xe136", 0, 5}};
  bool isdbd = r.chance(0.5); f.decay_category = isdbd ? "dbd" : "background"; c.nclass = "published";
  if (isdbd) { int k = r.range(0, 9); f.nuclide = vd[k].n; f.dbd_level = vd[k].l; f.dbd_mode = vd[k].m; if (r.chance(0.3)) f.nuclide = r.pick(dbd), f.dbd_level = 0, f.dbd_mode = 1;
    // any published isotope with a generated level and mode: whether the combination exists is for the core oracle to say (both must agree)
    if (r.chance(0.35)) { f.nuclide = r.pick(dbd); f.dbd_level = r.chance(0.6) ? 0 : r.range(1, 4); f.dbd_mode = r.range(1, 20); c.nclass = "generated-level-mode"; } }
  else f.nuclide = r.pick(bkg);
  f.seed = r.chance(0.6) ? r.range(1, 1000000) : (int[]){1, 42, 314159, 2147483647}[r.range(0, 3)];
  c.nev = r.range(1, 4); c.vkind = r.range(0, 2); if (r.chance(0.05)) c.vkind = 3; else if (r.chance(0.3)) c.vkind = r.range(4, 5); c.detach_first = r.chance(0.3); c.route = r.chance(0.4) ? r.range(1, 2) : 0; c.touch_gun = r.chance(0.3); c.pos = G4ThreeVector(r.uniform(-50, 50), r.uniform(-50, 50), r.uniform(-50, 50));
  if (r.chance(0.2)) { f.use_mdl = true; static const char * nm[] = {"e-", "gamma", "all", "*", "alpha", "e+"}; f.mdl_target_name = nm[r.range(0, 5)]; f.mdl_target_rank = r.range(-1, 2); f.mdl_cone_longitude = r.uniform(0, 360); f.mdl_cone_colatitude = r.uniform(0, 180); f.mdl_cone_aperture = r.uniform(0, 80); if (r.chance(0.3)) f.mdl_cone_aperture2 = r.uniform(1, 80); }
  // mutations
  int nm = r.chance(0.45) ? 0 : r.range(1, 2);
  for (int k = 0; k < nm; k++) switch (r.range(0, 11)) {
    case 0: f.decay_category = r.chance(0.5) ? "" : "xyz"; c.nclass = "bad-category"; break;
    case 1: f.nuclide = r.pick(std::vector<std::string>{"Xx99", "Po214", "U235", "Ta180m", "mo100"}); c.nclass = "unpublished"; break;
    case 2: f.nuclide = std::string(f.nuclide) + r.pick(std::vector<std::string>{"m", "0", "+X"}); c.nclass = "prefix-extended"; break;
    case 3: f.nuclide = isdbd ? "Co60" : "Mo100"; c.nclass = "cross-category"; break;
    case 4: f.seed = r.chance(0.5) ? 0 : -3; c.nclass = "bad-seed"; break;
    case 5: if (isdbd) { f.dbd_mode = r.pick(std::vector<int>{0, 25, 26, -1}); c.nclass = "bad-mode"; } break;
    case 6: if (isdbd) { f.dbd_level = r.pick(std::vector<int>{-1, 9, 17, 99}); c.nclass = "bad-level"; } break;
    case 7: if (isdbd) { f.dbd_mode = r.range(1, 24); c.nclass = "other-mode"; } break;
    case 8: if (isdbd) { f.dbd_min_energy_MeV = r.chance(0.3) ? 0.5 : std::round(r.uniform(0.05, 1.5) * 1000) / 1000; f.dbd_max_energy_MeV = r.chance(0.3) ? 1.5 : std::round((f.dbd_min_energy_MeV + r.uniform(0.2, 2.0)) * 1000) / 1000; if (r.chance(0.15)) f.dbd_min_energy_MeV = -1; else if (r.chance(0.15)) f.dbd_max_energy_MeV = -1; c.nclass = "window"; } break;
    case 9: if (isdbd) { f.dbd_min_energy_MeV = 1.5; f.dbd_max_energy_MeV = 0.5; c.nclass = "inverted-window"; } break;
    case 10: f.nuclide = ""; c.nclass = "no-nuclide"; break;
    default: break; // (an invalid MDL label is not among the aspects the property lists: not generated)
  }
  return c;
}

// 60% single request on a fresh action; 40% a sequence of 2-3 requests on one reused action (optionally DestroyConfiguration in between)
static void build_steps(uint64_t cs, std::vector<Case> & steps, std::vector<int> & destroy)
{
  Rng r(mix(cs, 99)); int n = r.chance(0.6) ? 1 : r.range(2, 3);
  for (int i = 0; i < n; i++) { steps.push_back(gen_case(mix(cs, i))); destroy.push_back(i > 0 && r.chance(0.3)); }
}

int main(int argc, char ** argv)
{
  Args a(argc, argv);
  Report rep; rep.prop = "C17"; Known known; if (a.has("known")) known.load(a.s("known"));
  std::string replaydir = a.s("replaydir", "replay");
  int out_fd = dup(1); silence_stdio(true, true);
  static std::ofstream devnull("/dev/null"); std::cerr.rdbuf(devnull.rdbuf()); std::clog.rdbuf(devnull.rdbuf());
  FILE * res = fdopen(out_fd, "w");
  uint64_t seed = a.i("seed", 1); int shard = a.i("shard", 0), nsh = a.i("nshards", 1); long long cases = a.i("cases", 20000);
  if (a.has("replay")) { JV j = jload(a.s("replay")); std::vector<Case> steps; std::vector<int> destroy; build_steps(strtoull(j.s("case_seed").c_str(), nullptr, 10), steps, destroy); Res r = run_steps(steps, destroy); dprintf(out_fd, r.ok ? "REPLAY-PASS\n" : "REPLAY-FAIL class=%s %s\n", r.cls.c_str(), r.msg.c_str()); return r.ok ? 0 : 1; }
  std::map<std::string, int> per;
  try {
    for (long long k = shard; k < cases; k += nsh) {
      uint64_t cs = mix(mix(seed, 0xC17), k); std::vector<Case> steps; std::vector<int> destroy; build_steps(cs, steps, destroy);
      const Case & c = steps.back(); Res r = run_steps(steps, destroy); rep.evaluations++; rep.label("class:" + c.nclass); rep.label("steps:" + std::to_string(steps.size()));
      if (!r.ok) {
        std::string sig = "C17|" + r.cls + "|" + std::string(c.cf.decay_category) + "|" + c.nclass + (steps.size() > 1 ? "|reused-action" : ""); std::string kid = known.match("C17", sig);
        if (!kid.empty()) { rep.known[kid]++; continue; }
        if (per[sig]++) { rep.count("further_failures_same_class"); continue; }
        std::string cfgs; for (auto & st : steps) cfgs += (cfgs.empty() ? "" : ",") + cfg_json(st);
        std::string path = replaydir + "/C17-" + hash_name(sig + cfgs) + ".json";
        std::ofstream(path) << "{\"property\":\"C17\",\"case_seed\":\"" << cs << "\",\"steps\":[" << cfgs << "],\"sig\":" << jstr(sig) << ",\"msg\":" << jstr(r.msg) << "}\n";
        rep.failures.push_back({sig, r.msg, path}); continue;
      }
      rep.nt(r.nt + "|" + std::string(c.cf.nuclide));
      if (rep.samples.size() < 5 && k % 211 == 0) rep.sample("{\"last_config\":" + cfg_json(c) + ",\"steps\":" + std::to_string(steps.size()) + ",\"outcome\":" + jstr(r.nt) + "}");
    }
  } catch (std::exception & e) { fprintf(res, "HARNESS-ERROR %s\n", e.what()); fflush(res); return 2; }
  rep.write(a.s("out", "report.json"));
  fprintf(res, "done evaluations=%llu failures=%zu\n", (unsigned long long)rep.evaluations, rep.failures.size()); fflush(res);
  return 0;
}
