// listdump.cc -- C05 helper: prints the three catalogues exactly as the library API reports them (one process per resource directory, because the
// library caches the resource directory and the parsed lists in function-level statics).  Output: one line per entry.
#include <iostream>
#include <bxdecay0/bb_utils.h>
int main()
{
  try {
    for (auto & n : bxdecay0::dbd_isotopes()) std::cout << "dbd " << n << "\n";
    for (auto & n : bxdecay0::background_isotopes()) std::cout << "bkg " << n << "\n";
    for (auto & kv : bxdecay0::dbd_modes()) std::cout << "mode " << (int)kv.first << " " << kv.second.unique_label << " " << (int)kv.second.legacy_modebb << "\n"; // (the free-text description keeps whatever trails the line: layout, not catalogue)
  } catch (std::exception & e) { std::cout << "EXCEPTION " << e.what() << "\n"; return 0; }
  return 0;
}
