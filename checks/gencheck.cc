// gencheck.cc -- C03 (energy budget / window), C04 (well-formed, bounded work), C05 (one name, one scheme; catalogues)
// through the public API (decay0_generator / genbbsub / per-nuclide scheme functions), engine A.
//
//   gencheck --prop C03|C04|C05 --seed S --shard i --nshards n --out report.json [--known f] [--replaydir d]
//            [--tier quick|thorough] [--replay file]
#include <cmath>
#include <map>
#include <functional>
#include <iostream>
#include <limits>
#include <memory>
#include <unistd.h>

#include <bxdecay0/bb.h>
#include <bxdecay0/bb_utils.h>
#include <bxdecay0/decay0_generator.h>
#include <bxdecay0/event.h>
#include <bxdecay0/genbbsub.h>

#include "../engine/vf.hpp"
#include "../engine/redzone.hpp"
#include "refdict.inc"
#include "reflow.inc"
#include "catalog.hpp"
#include "schemes.hpp"

using namespace vf;
typedef bxdecay0::decay0_generator G;

static const double EMASS = 0.51099906, AMASS = 3727.417;
static const size_t DEV_LIMIT = 20000;
// rejection sampling inside an energy window is slower by about the full-range/window ratio: the work bound scales with it
static size_t g_shot_limit = DEV_LIMIT;

struct Cfg
{
  std::string kind, name; int level = 0, mode = 0; bool win = false; double emin = 0, emax = 0;
  std::string key() const { char b[160]; snprintf(b, sizeof b, "%s:%s:%d:%d:%d:%.6g:%.6g", kind.c_str(), name.c_str(), level, mode, (int)win, emin, emax); return b; }
  std::string json() const
  {
    return "{\"kind\":" + jstr(kind) + ",\"name\":" + jstr(name) + ",\"level\":" + std::to_string(level) + ",\"mode\":" + std::to_string(mode) + ",\"win\":" + (win ? "true" : "false") + ",\"emin\":" + jstr(hexd(emin)) + ",\"emax\":" + jstr(hexd(emax)) + "}";
  }
  static Cfg from(const JV & j)
  {
    Cfg c; c.kind = j.s("kind"); c.name = j.s("name"); c.level = (int)j.n("level", 0); c.mode = (int)j.n("mode", 0);
    c.win = j.has("win") && j.at("win").b; c.emin = strtod(j.s("emin", "0").c_str(), nullptr); c.emax = strtod(j.s("emax", "0").c_str(), nullptr);
    return c;
  }
};

static void configure(G & g, const Cfg & c)
{
  if (c.kind == "bkg") { g.set_decay_category(G::DECAY_CATEGORY_BACKGROUND); g.set_decay_isotope(c.name); }
  else {
    g.set_decay_category(G::DECAY_CATEGORY_DBD); g.set_decay_isotope(c.name); g.set_decay_dbd_level(c.level);
    g.set_decay_dbd_mode((bxdecay0::dbd_mode_type)c.mode);
    if (c.win) g.set_decay_dbd_esum_range(c.emin, c.emax);
  }
}

static double kin(const bxdecay0::particle & p)
{
  double pp = p.get_p();
  if (p.is_gamma()) return pp;
  double m = p.is_alpha() ? AMASS : EMASS;
  return std::sqrt(pp * pp + m * m) - m;
}
static std::string ev_json(const bxdecay0::event & e)
{
  std::string o = "[";
  bool f = true;
  for (auto & p : e.get_particles()) {
    o += (f ? "" : ","); f = false;
    o += "[" + std::to_string((int)p.get_code()) + "," + jnum(p.get_px()) + "," + jnum(p.get_py()) + "," + jnum(p.get_pz()) + "," + jnum(p.get_time()) + "]";
  }
  return o + "]";
}
static std::string path_sig(const bxdecay0::event & e)
{
  std::string s;
  for (auto & p : e.get_particles()) {
    char b[32]; double k = kin(p);
    if (p.is_gamma()) snprintf(b, sizeof b, "g%d.", (int)std::lround(k * 1000));
    else if (p.is_alpha()) snprintf(b, sizeof b, "a%d.", (int)std::lround(k * 1000));
    else snprintf(b, sizeof b, "%s.", p.is_positron() ? "e+" : "e-");
    s += b;
  }
  return s;
}
static std::string tail_class(const Tape & t, size_t used)
{
  bool lo = false, hi = false;
  for (size_t i = 0; i < used && i < t.v.size(); i++) { if (t.v[i] < 1e-6) lo = true; if (t.v[i] > 1 - 1e-6) hi = true; }
  return std::string(lo ? "L" : "-") + (hi ? "H" : "-");
}

static Profile profile_for(uint64_t h, bool heavy_tails)
{
  Profile p;
  if (heavy_tails) {
    switch (h % 5) {
    case 0: p.p_plain = 1.0; break;
    case 1: p.p_plain = 0.5; p.w_low = 1; p.w_high = 1; break;
    case 2: p.p_plain = 0.6; p.w_low = 2; p.w_high = 1; p.w_dict = 1; break;
    case 3: p.p_plain = 0.6; p.w_low = 1; p.w_high = 2; p.w_dict = 1; break;
    default: p.p_plain = 0.75; p.w_dict = 1; p.w_low = 0.5; p.w_high = 0.5; break;
    }
  } else {
    switch (h % 4) {
    case 0: p.p_plain = 1.0; break;
    case 1: p.p_plain = 0.7; p.w_dict = 1; break;
    case 2: p.p_plain = 0.6; p.w_low = 1; p.w_high = 1; p.w_dict = 2; break;
    default: p.p_plain = 0.85; p.w_low = 1; p.w_high = 1; break;
    }
  }
  return p;
}

static std::vector<double> dict_for(const Cfg & c)
{
  std::set<double> s; std::set<std::string> seen; std::vector<std::string> todo;
  std::string rn = c.name.substr(0, c.name.find('+'));
  auto it = REF_DISPATCH.find(c.kind + ":" + rn);
  if (it != REF_DISPATCH.end()) todo = it->second;
  while (!todo.empty()) {
    std::string n = todo.back(); todo.pop_back();
    if (!seen.insert(n).second) continue;
    auto d = REF_DICT.find(n); if (d != REF_DICT.end()) s.insert(d->second.begin(), d->second.end());
    auto cl = REF_CALLS.find(n);
    if (cl != REF_CALLS.end()) for (auto & x : cl->second) {
      if (x == "beta" || x == "beta1" || x == "beta2" || x == "beta_1fu" || x == "particle" || x == "pair" || x == "tgold") continue;
      todo.push_back(x);
    }
  }
  return std::vector<double>(s.begin(), s.end());
}

// ------------------------------------------------------------------ failure plumbing
struct Res { bool ok = true; std::string cls, msg; };
// event digests per configuration (--digest file): the same driver run against two builds of the library that differ only in how automatic variables
// start out (zero / pattern) must produce the same events; a difference is a read of an uninitialised variable (C08)
static std::map<std::string, std::pair<uint64_t, uint64_t>> * g_digest = nullptr;
static void digest_event(const std::string & key, const bxdecay0::event & e, size_t used)
{
  if (!g_digest) return;
  auto & d = (*g_digest)[key]; uint64_t h = d.first ? d.first : 1469598103934665603ULL;
  auto mixin = [&](const void * p, size_t n) { const unsigned char * c = (const unsigned char *)p; for (size_t i = 0; i < n; i++) { h ^= c[i]; h *= 1099511628211ULL; } };
  uint64_t u = used; mixin(&u, sizeof u);
  for (auto & p : e.get_particles()) { int code = (int)p.get_code(); double x[4] = {p.get_px(), p.get_py(), p.get_pz(), p.get_time()}; mixin(&code, sizeof code); mixin(x, sizeof x); }
  d.first = h; d.second++;
}
struct Ctx { Report rep; Known known; std::string prop, replaydir; std::map<std::string, int> per; bool breadcrumb = false; std::string curfile; };

static std::string case_json(const Ctx & cx, const Cfg & c, const Tape & itape, const Tape & tape, size_t used, const std::string & sig, const std::string & msg, const std::string & extra)
{
  return "{\"property\":" + jstr(cx.prop) + ",\"cfgsig\":" + jstr(c.key()) + ",\"config\":" + c.json() + ",\n\"init_tape_seed\":" + jstr(std::to_string(itape.seed)) + ",\"init_tape\":" + jtape(itape.v, itape.v.size()) + ",\n\"tape_seed\":" + jstr(std::to_string(tape.seed)) + ",\"profile\":[" + jnum(tape.prof.p_plain) + "," + jnum(tape.prof.w_low) + "," + jnum(tape.prof.w_high) + "," + jnum(tape.prof.w_dict) + "],\"tape\":" + jtape(tape.v, used) + ",\n\"sig\":" + jstr(sig) + ",\"msg\":" + jstr(msg) + extra + "}\n";
}
static void breadcrumb(Ctx & cx, const Cfg & c, const Tape & itape, const Tape & tape)
{
  if (!cx.breadcrumb) return;
  // written before the case runs, so that a sanitizer abort leaves the reproducer behind (tape = seed + profile)
  FILE * f = fopen(cx.curfile.c_str(), "w");
  if (!f) return;
  std::string js = case_json(cx, c, itape, tape, 0, "crash", "", "");
  fwrite(js.data(), 1, js.size(), f); fclose(f);
}

typedef std::function<Res(Tape &)> PropFn;

static void shrink_tape(Tape & tape, const std::string & cls, const PropFn & fn, TapeRandom * /*unused*/ = nullptr)
{
  auto still = [&](Tape & t) { Res r = fn(t); return !r.ok && r.cls == cls; };
  int budget = 300;
  for (size_t i = tape.v.size(); i-- > 0 && budget > 0;) {
    if (tape.v[i] == 0.5) continue;
    double old = tape.v[i]; tape.v[i] = 0.5; budget--;
    if (!still(tape)) tape.v[i] = old;
  }
  for (size_t i = 0; i < tape.v.size() && budget > 0; i++)
    for (int digits = 2; digits <= 8 && budget > 0; digits += 3) {
      double old = tape.v[i]; char b[40]; snprintf(b, sizeof b, "%.*g", digits, old); double nv = clampdev(strtod(b, nullptr));
      if (nv == old) break;
      tape.v[i] = nv; budget--;
      if (still(tape)) break;
      tape.v[i] = old;
    }
}

static void report_failure(Ctx & cx, const Cfg & c, const Tape & itape, Tape & tape, const Res & r0, const PropFn & fn, size_t used_hint)
{
  std::string sig = cx.prop + "|" + c.name + "|L" + std::to_string(c.level) + "|M" + std::to_string(c.mode) + "|" + (c.win ? "W" : "-") + "|" + r0.cls;
  std::string kid = cx.known.match(cx.prop, sig);
  if (!kid.empty()) { cx.rep.known[kid]++; return; }
  int & n = cx.per[c.key() + r0.cls];
  if (n++ >= 1) { cx.rep.count("further_failures_same_config_class"); return; }
  Tape t = tape; if (t.v.size() > used_hint && used_hint > 0) t.v.resize(used_hint);
  shrink_tape(t, r0.cls, fn);
  Res r = fn(t);
  if (r.ok || r.cls != r0.cls) { t = tape; r = r0; }
  int again = 0; for (int k = 0; k < 3; k++) { Res rr = fn(t); if (!rr.ok) again++; }
  if (again < 3) { cx.rep.count("unstable_failure_dropped"); return; }
  std::string js = case_json(cx, c, itape, t, t.v.size(), sig, r.msg, "");
  std::string path = cx.replaydir + "/" + cx.prop + "-" + hash_name(sig + js) + ".json";
  std::ofstream(path) << js;
  cx.rep.failures.push_back({sig, r.msg, path});
}

// ------------------------------------------------------------------ C04: validity predicate
static Res c04_predicate(const Cfg & c, const bxdecay0::event & e, double qmax)
{
  Res r; auto fail = [&](const std::string & cls, const std::string & m) { if (r.ok) { r.ok = false; r.cls = cls; r.msg = m; } };
  const auto & ps = e.get_particles();
  if (ps.empty()) fail("empty", "event has no particle");
  if (ps.size() > 100) fail("too-many", "event has " + std::to_string(ps.size()) + " particles (>100)");
  if (!(e.get_time() == 0.0)) fail("evtime", "event reference time is " + jnum(e.get_time()) + ", expected 0");
  if (e.get_generator() != c.name) fail("label", "generator label '" + e.get_generator() + "' != requested '" + c.name + "'");
  double tprev = 0;
  for (size_t i = 0; i < ps.size(); i++) {
    const auto & p = ps[i];
    int code = (int)p.get_code();
    if (!(code == 1 || code == 2 || code == 3 || code == 47)) fail("species", "particle " + std::to_string(i) + " has code " + std::to_string(code));
    double px = p.get_px(), py = p.get_py(), pz = p.get_pz(), t = p.get_time();
    if (!std::isfinite(px) || !std::isfinite(py) || !std::isfinite(pz)) { fail("momentum-nonfinite", "particle " + std::to_string(i) + " has non-finite momentum"); continue; }
    double k = kin(p);
    if (!(k >= 0) || k > 10.0) fail("energy-range", "particle " + std::to_string(i) + " kinetic energy " + jnum(k) + " MeV outside [0,10]");
    if (qmax > 0 && !p.is_alpha() && k > qmax + 0.003) fail("energy-above-Q", "particle " + std::to_string(i) + " kinetic energy " + jnum(k) + " exceeds Q+3keV=" + jnum(qmax + 0.003));
    if (!std::isfinite(t)) { fail("time-nonfinite", "particle " + std::to_string(i) + " has non-finite time"); continue; }
    if (t < 0) fail("time-negative", "particle " + std::to_string(i) + " has negative time " + jnum(t));
    if (t < tprev) fail("time-order", "particle " + std::to_string(i) + " time " + jnum(t) + " < previous " + jnum(tprev));
    tprev = t;
  }
  return r;
}

// ------------------------------------------------------------------ C03: energy budget
static bool is_0nu(int m) { return m == 1 || m == 2 || m == 3 || m == 7 || m == 9 || m == 11 || m == 17 || m == 18 || m == 20; }
static bool window_mode(int m) { return m == 4 || m == 5 || m == 6 || m == 8 || m == 10 || m == 13 || m == 14 || m == 15 || m == 16 || m == 19; }
static bool chain_iso(const std::string & n) { return n == "Bi214" || n == "Pb214" || n == "Po218" || n == "Rn222"; }

static Res c03_predicate(const Cfg & c, const bxdecay0::event & e, const G & g)
{
  Res r; auto fail = [&](const std::string & cls, const std::string & m) { if (r.ok) { r.ok = false; r.cls = cls; r.msg = m; } };
  auto it = REF_DBD.find(c.name);
  if (it == REF_DBD.end()) return r;
  const RefDbd & d = it->second;
  double Q = (c.mode == 20 && d.Q4b > 0) ? d.Q4b : d.Q;
  double Elev = catalog::readme_level_energy(c.name, c.level);
  if (Elev < 0) { fail("readme-level", "level " + std::to_string(c.level) + " of " + c.name + " is not in the README appendix"); return r; }
  const auto & ps = e.get_particles();
  size_t nprim = (c.mode == 20) ? 4 : (c.mode == 11 ? 3 : 2);
  size_t ncount = chain_iso(c.name) ? std::min(nprim, ps.size()) : ps.size(); // follow-up alpha chain is not part of the 2b budget
  double evis = 0;
  for (size_t i = 0; i < ncount; i++) { evis += kin(ps[i]); if (ps[i].is_positron()) evis += 1.022; }
  const double TOL = 0.003;
  if (is_0nu(c.mode)) { if (std::fabs(evis - Q) > TOL) fail("budget-0nu", "visible energy " + jnum(evis) + " != Q=" + jnum(Q) + " (level " + jnum(Elev) + ")"); }
  else {
    if (evis > Q + TOL) fail("budget-above-Q", "visible energy " + jnum(evis) + " exceeds Q=" + jnum(Q));
    if (evis < Elev - TOL) fail("budget-below-level", "visible energy " + jnum(evis) + " below level energy " + jnum(Elev) + ": de-excitation missing");
  }
  if (c.win && window_mode(c.mode)) {
    double ts = 0;
    if (c.mode == 10) ts = ps.size() > 0 ? kin(ps[0]) : 0;
    else ts = (ps.size() > 1) ? kin(ps[0]) + kin(ps[1]) : 0;
    // a bound that is not set (NaN) does not constrain (one-sided windows are part of the API: each bound is applied on its own)
    if ((!std::isnan(c.emin) && ts < c.emin - 1e-6) || (!std::isnan(c.emax) && ts > c.emax + 1e-6)) fail("window", "lepton kinetic sum " + jnum(ts) + " outside window [" + jnum(c.emin) + "," + jnum(c.emax) + "]");
  }
  double ta = g.get_to_all_events();
  if (!(ta >= 1.0 - 1e-9)) fail("toall<1", "toallevents=" + jnum(ta) + " < 1");
  if (c.win && window_mode(c.mode) && c.mode != 10) {
    // a window that excludes a tenth or more of the energy range must report a ratio above 1
    auto itq = REF_DBD.find(c.name); double e0 = itq->second.Q - itq->second.levelE[c.level] / 1000.0; if (itq->second.Z < 0) e0 -= 4 * EMASS;
    double lo = std::isnan(c.emin) ? 0.0 : c.emin, hi = std::isnan(c.emax) ? e0 : std::min(c.emax, e0);
    if ((hi - lo) < 0.9 * e0 && !(ta > 1.0)) fail("toall==1-with-window", "toallevents=" + jnum(ta) + " although the window [" + jnum(c.emin) + "," + jnum(c.emax) + "] excludes part of the range (e0=" + jnum(e0) + ")");
  }
  if (!c.win && ta != 1.0 && !window_mode(c.mode)) fail("toall!=1", "toallevents=" + jnum(ta) + " for a mode without window");
  return r;
}

// ------------------------------------------------------------------ running a config through decay0_generator
struct GenRun
{
  std::unique_ptr<G> g; Tape itape; bool accepted = false; std::string reject;
  ~GenRun() { if (g) vf::redzones(g->get_bb_params(), false); }
};
static void init_gen(GenRun & gr, const Cfg & c, uint64_t iseed)
{
  if (gr.g) vf::redzones(gr.g->get_bb_params(), false);
  gr.g.reset(new G); gr.itape = Tape(); gr.itape.seed = iseed;
  TapeRandom r(gr.itape, 0, DEV_LIMIT);
  // (sanitized build only) once the generator is initialised the red zones around its spectrum tables are poisoned: see engine/redzone.hpp
  try { configure(*gr.g, c); gr.g->initialize(r); gr.accepted = true; vf::redzones(gr.g->get_bb_params(), true); }
  catch (TapeOverrun &) { gr.accepted = false; gr.reject = "init-overrun"; }
  catch (std::exception & e) { gr.accepted = false; gr.reject = e.what(); }
}

// one shot; returns consumed
static Res shoot_and_check(Ctx & cx, const Cfg & c, G & g, Tape & tape, size_t & used, bxdecay0::event & ev, double qmax)
{
  Res r; TapeRandom rr(tape, 0, g_shot_limit);
  // the event object a user hands to shoot() is not always fresh: as a pure function of the case (tape seed) it is left as the previous shot
  // left it, or pre-filled like the leftover of ANOTHER generator (other label; particles with or without a reference time)
  switch (splitmix64(tape.seed ^ 0xE7) % 8) {
  case 1: { ev = bxdecay0::event(); ev.set_generator("Xx999"); ev.set_time(12.5); bxdecay0::particle p; p.set_code(bxdecay0::ALPHA); p.set_time(3.0); p.set_momentum(9, 8, 7); ev.add_particle(p); ev.add_particle(p); break; }
  case 2: { ev = bxdecay0::event(); ev.set_generator("Xx999"); bxdecay0::particle p; p.set_code(bxdecay0::GAMMA); p.set_time(2.0); p.set_momentum(1, 2, 3); ev.add_particle(p); break; } // no reference time
  case 3: { ev = bxdecay0::event(); ev.set_generator("Xx999"); break; }
  case 4: { ev = bxdecay0::event(); break; }
  default: break; // as the previous shot left it
  }
  try { g.shoot(rr, ev); }
  catch (TapeOverrun &) { used = rr.pos; r.ok = false; r.cls = "unbounded-work"; r.msg = "one shot consumed more than " + std::to_string(g_shot_limit) + " deviates"; return r; }
  catch (std::exception & e) { used = rr.pos; r.ok = false; r.cls = "exception"; r.msg = e.what(); return r; }
  used = rr.pos;
  digest_event(c.key(), ev, used);
  if (cx.prop == "C04") return c04_predicate(c, ev, qmax);
  Res r4 = c04_predicate(c, ev, qmax); // C03 presupposes a well-formed event
  if (!r4.ok) { r4.cls = "malformed:" + r4.cls; return r4; }
  return c03_predicate(c, ev, g);
}

static double qmax_for(const Cfg & c)
{
  if (c.kind != "dbd") return 0;
  auto it = REF_DBD.find(c.name); if (it == REF_DBD.end()) return 0;
  return std::max(it->second.Q, it->second.Q4b);
}

static void run_config(Ctx & cx, const Cfg & c, uint64_t seed, int nev, bool heavy, const std::string & wclass)
{
  GenRun gr; uint64_t iseed = mix(seed, std::hash<std::string>()(c.key()));
  { Tape dummy; dummy.seed = iseed; breadcrumb(cx, c, dummy, dummy); }
  init_gen(gr, c, iseed);
  if (!gr.accepted) { cx.rep.label("rejected"); cx.rep.count("configs_rejected"); return; }
  cx.rep.count("configs_accepted");
  g_shot_limit = DEV_LIMIT;
  if (c.kind == "dbd" && c.win) {
    double ta = gr.g->get_to_all_events();
    if (ta > 200.0) { cx.rep.count("configs_skipped_window_ratio_above_200"); return; } // an extreme sliver: correct but too slow to sample here
    if (ta > 1.0) g_shot_limit = (size_t)(DEV_LIMIT * ta);
  }
  cx.rep.label(c.kind == "bkg" ? "bkg" : ("mode:" + std::to_string(c.mode)));
  if (c.kind == "dbd") cx.rep.label("window:" + wclass);
  std::vector<double> dict = dict_for(c);
  double qmax = qmax_for(c);
  bxdecay0::event ev; // reused across shots, as a user would
  for (int k = 0; k < nev; k++) {
    Tape tape; tape.seed = mix(iseed, 7919 + k); tape.prof = profile_for(splitmix64(tape.seed), heavy); tape.dict = &dict;
    breadcrumb(cx, c, gr.itape, tape);
    size_t used = 0;
    Res r = shoot_and_check(cx, c, *gr.g, tape, used, ev, qmax);
    cx.rep.evaluations++;
    if (!r.ok) {
      PropFn fn = [&](Tape & t) { size_t u; bxdecay0::event e2; return shoot_and_check(cx, c, *gr.g, t, u, e2, qmax); };
      report_failure(cx, c, gr.itape, tape, r, fn, used);
      continue;
    }
    cx.rep.nt(c.key() + "|" + wclass + "|" + path_sig(ev) + "|" + tail_class(tape, used));
    if (cx.rep.samples.size() < cx.rep.max_samples && tape.seed % 11 == 0)
      cx.rep.sample("{\"config\":" + c.json() + ",\"first_deviates\":" + jtape(tape.v, 6) + ",\"deviates_used\":" + std::to_string(used) + ",\"event\":" + ev_json(ev) + ",\"toallevents\":" + jnum(gr.g->get_to_all_events()) + "}");
  }
}

// window monotonicity: nested windows W1 >= W2 >= W3 -> toallevents non-decreasing
static void run_nested(Ctx & cx, const Cfg & base, uint64_t seed)
{
  auto it = REF_DBD.find(base.name); if (it == REF_DBD.end()) return;
  double e0 = it->second.Q - catalog::readme_level_energy(base.name, base.level);
  if (it->second.Z < 0) e0 -= 4 * EMASS;
  if (e0 < 0.3) return;
  Rng r(mix(seed, std::hash<std::string>()(base.key() + "nest")));
  double a1 = r.uniform(0.0, 0.3) * e0, b1 = r.uniform(0.7, 1.0) * e0;
  double a2 = a1 + r.uniform(0.0, 0.4) * (b1 - a1) * 0.5, b2 = b1 - r.uniform(0.0, 0.4) * (b1 - a1) * 0.5;
  double a3 = a2 + r.uniform(0.05, 0.4) * (b2 - a2) * 0.5, b3 = b2 - r.uniform(0.05, 0.4) * (b2 - a2) * 0.5;
  double ws[4][2] = {{0, 0}, {a1, b1}, {a2, b2}, {a3, b3}};
  double prev = 0; std::string prevdesc;
  for (int k = 0; k < 4; k++) {
    Cfg c = base; c.win = (k > 0); c.emin = std::round(ws[k][0] * 1000) / 1000; c.emax = std::round(ws[k][1] * 1000) / 1000;
    GenRun gr; init_gen(gr, c, mix(seed, 4242 + k));
    cx.rep.evaluations++;
    if (!gr.accepted) { cx.rep.count("nested_rejected"); return; }
    double ta = gr.g->get_to_all_events();
    Res res;
    if (k == 0 && ta != 1.0) { res.ok = false; res.cls = "toall-full!=1"; res.msg = "toallevents=" + jnum(ta) + " without window"; }
    if (k > 0 && !(ta >= prev * (1 - 1e-6))) { res.ok = false; res.cls = "toall-not-monotone"; res.msg = "toallevents " + jnum(ta) + " for window [" + jnum(c.emin) + "," + jnum(c.emax) + "] < " + jnum(prev) + " for enclosing " + prevdesc; }
    if (!res.ok) {
      std::string sig = cx.prop + "|" + c.name + "|L" + std::to_string(c.level) + "|M" + std::to_string(c.mode) + "|W|" + res.cls;
      std::string kid = cx.known.match(cx.prop, sig);
      if (!kid.empty()) cx.rep.known[kid]++;
      else {
        Tape t; std::string js = case_json(cx, c, gr.itape, t, 0, sig, res.msg, ",\"nested_of\":" + base.json());
        std::string path = cx.replaydir + "/" + cx.prop + "-" + hash_name(sig + js) + ".json";
        std::ofstream(path) << js; cx.rep.failures.push_back({sig, res.msg, path});
      }
      return;
    }
    prev = ta; prevdesc = "[" + jnum(c.emin) + "," + jnum(c.emax) + "]";
    cx.rep.nt(base.key() + "|nested" + std::to_string(k));
  }
  cx.rep.count("nested_chains_checked");
}


// ---- toallevents must not depend on what was initialised before (same isotope and mode, another daughter level; then after an unrelated
// initialisation): the full range reports exactly 1, and a window reports the same ratio whatever preceded it
static Res hop_case(const Cfg & first, const Cfg & second, uint64_t seed)
{
  Res res;
  { GenRun g0; init_gen(g0, first, mix(seed, 1)); if (!g0.accepted) { res.cls = "skip"; return res; } }
  double t_after_first;
  { GenRun g1; init_gen(g1, second, mix(seed, 2)); if (!g1.accepted) { res.cls = "skip"; return res; } t_after_first = g1.g->get_to_all_events(); }
  Cfg other; other.kind = "dbd"; other.name = first.name == "Se82" ? "Mo100" : "Se82"; other.level = 0; other.mode = (first.mode == 4) ? 5 : 4;
  { GenRun g2; init_gen(g2, other, mix(seed, 3)); }
  double t_after_other;
  { GenRun g3; init_gen(g3, second, mix(seed, 2)); if (!g3.accepted) { res.ok = false; res.cls = "hop-refused"; res.msg = "the same request is accepted, then refused after an unrelated initialisation"; return res; } t_after_other = g3.g->get_to_all_events(); }
  std::string d = second.name + " L" + std::to_string(second.level) + " M" + std::to_string(second.mode) + (second.win ? " window [" + jnum(second.emin) + "," + jnum(second.emax) + "]" : " full range");
  if (!second.win && t_after_first != 1.0) { res.ok = false; res.cls = "hop-toall-full!=1"; res.msg = d + " reports toallevents=" + jnum(t_after_first) + " when initialised right after level " + std::to_string(first.level) + " of the same isotope and mode (must be 1)"; return res; }
  if (std::fabs(t_after_first - t_after_other) > 1e-12 * std::fabs(t_after_other)) { res.ok = false; res.cls = "hop-toall-depends-on-history"; res.msg = d + " reports toallevents=" + jnum(t_after_first) + " right after level " + std::to_string(first.level) + " of the same isotope and mode, and " + jnum(t_after_other) + " after an unrelated initialisation"; return res; }
  return res;
}
static void run_hopping(Ctx & cx, uint64_t seed, bool thorough, const std::function<bool()> & mine)
{
  for (auto & n : catalog::dbd_published()) {
    auto it = REF_DBD.find(n); if (it == REF_DBD.end()) continue; int maxl = (int)it->second.levelE.size() - 1; if (maxl < 1) continue;
    for (int m = 1; m <= 20; m++) {
      if (!window_mode(m)) continue;
      if (!thorough && mix(seed, std::hash<std::string>()(n) + m) % 3 != 0) continue;
      if (!mine()) continue;
      // the daughter levels this mode accepts (spin rule, energy): hop between every ordered pair of them
      std::vector<int> acc; for (int l = 0; l <= maxl; l++) { Cfg c; c.kind = "dbd"; c.name = n; c.level = l; c.mode = m; GenRun g; init_gen(g, c, mix(seed, 77 + l)); if (g.accepted) acc.push_back(l); }
      for (int la : acc) for (int lb : acc) {
        if (la == lb) continue;
        for (int w = 0; w < 2; w++) {
          Cfg a; a.kind = "dbd"; a.name = n; a.level = la; a.mode = m; Cfg b = a; b.level = lb;
          if (w) { double e0 = it->second.Q - it->second.levelE[lb] / 1000.0; if (it->second.Z < 0) e0 -= 4 * EMASS; if (m == 10) e0 -= it->second.EK[lb] + 2 * EMASS; if (e0 < 0.2) continue; b.win = true; b.emin = std::round(0.3 * e0 * 1000) / 1000; b.emax = std::round(0.8 * e0 * 1000) / 1000; }
          uint64_t cs = mix(seed, std::hash<std::string>()(a.key() + b.key()));
          Res r = hop_case(a, b, cs); if (r.cls == "skip") continue;
          cx.rep.evaluations++;
          if (!r.ok) {
            std::string sig = cx.prop + "|" + b.name + "|L" + std::to_string(la) + ">L" + std::to_string(lb) + "|M" + std::to_string(m) + "|" + r.cls;
            std::string kid = cx.known.match(cx.prop, sig);
            if (!kid.empty()) { cx.rep.known[kid]++; continue; }
            std::string js = "{\"property\":\"" + cx.prop + "\",\"hopping\":{\"first\":" + a.json() + ",\"second\":" + b.json() + ",\"case_seed\":\"" + std::to_string(cs) + "\"},\"sig\":" + jstr(sig) + ",\"msg\":" + jstr(r.msg) + "}\n";
            std::string path = cx.replaydir + "/" + cx.prop + "-" + hash_name(sig + js) + ".json";
            std::ofstream(path) << js; cx.rep.failures.push_back({sig, r.msg, path});
            continue;
          }
          cx.rep.nt(a.key() + ">" + b.key() + "|hop"); cx.rep.label(std::string("hop:") + (w ? "window" : "full"));
        }
      }
    }
  }
}

// ------------------------------------------------------------------ config enumeration
static std::vector<Cfg> dbd_grid()
{
  std::vector<Cfg> v;
  for (auto & n : catalog::dbd_published()) {
    auto it = REF_DBD.find(n); int maxl = it == REF_DBD.end() ? 0 : (int)it->second.levelE.size() - 1;
    for (int lev = 0; lev <= maxl; lev++) for (int m = 1; m <= 20; m++) { Cfg c; c.kind = "dbd"; c.name = n; c.level = lev; c.mode = m; v.push_back(c); }
    if (getenv("BXDECAY0_DBD_GA_DATA_DIR") && (n == "Se82" || n == "Mo100" || n == "Cd116" || n == "Nd150")) for (int m = 21; m <= 24; m++) { Cfg c; c.kind = "dbd"; c.name = n; c.level = 0; c.mode = m; v.push_back(c); }
  }
  return v;
}

static void run_low_pass(Ctx & cx, const Args & a, uint64_t seed, int shard, int nsh, bool thorough);
static void run_climb(Ctx & cx, const Cfg & c, G & g, uint64_t seed, long iters);
static int run_c03_c04(Ctx & cx, const Args & a)
{
  uint64_t seed = a.i("seed", 1); int shard = a.i("shard", 0), nsh = a.i("nshards", 1); bool thorough = a.s("tier", "quick") == "thorough";
  bool is04 = cx.prop == "C04";
  size_t item = 0;
  auto mine = [&]() { return (item++ % nsh) == (size_t)shard; };
  if (is04) {
    int nev = a.i("bkg_evts", thorough ? 3000000 : 250000);
    // every nuclide in every shard, shots split across shards
    for (auto & n : catalog::background_published()) {
      Cfg c; c.kind = "bkg"; c.name = n;
      GenRun gr; uint64_t iseed = mix(seed, std::hash<std::string>()(c.key()));
      init_gen(gr, c, iseed);
      if (!gr.accepted) {
        std::string sig = "C04|" + n + "|L0|M0|-|published-name-rejected";
        std::string path = cx.replaydir + "/C04-" + hash_name(sig) + ".json";
        Tape t; std::ofstream(path) << case_json(cx, c, gr.itape, t, 0, sig, gr.reject, "");
        if (shard == 0) cx.rep.failures.push_back({sig, "published background name is refused: " + gr.reject, path});
        continue;
      }
      std::vector<double> dict = dict_for(c); bxdecay0::event ev;
      for (int k = shard; k < nev; k += nsh) {
        Tape tape; tape.seed = mix(iseed, 7919 + k); tape.prof = profile_for(splitmix64(tape.seed), true); tape.dict = &dict;
        breadcrumb(cx, c, gr.itape, tape);
        size_t used = 0; Res r = shoot_and_check(cx, c, *gr.g, tape, used, ev, 0);
        cx.rep.evaluations++;
        if (!r.ok) { PropFn fn = [&](Tape & t) { size_t u; bxdecay0::event e2; return shoot_and_check(cx, c, *gr.g, t, u, e2, 0); }; report_failure(cx, c, gr.itape, tape, r, fn, used); continue; }
        cx.rep.nt(c.key() + "|" + path_sig(ev) + "|" + tail_class(tape, used));
        if (cx.rep.samples.size() < 3 && tape.seed % 13 == 0)
          cx.rep.sample("{\"config\":" + c.json() + ",\"first_deviates\":" + jtape(tape.v, 6) + ",\"deviates_used\":" + std::to_string(used) + ",\"event\":" + ev_json(ev) + "}");
      }
      cx.rep.label("bkg:" + n);
    }
    // targeted search (hill climbing on the tape, objective = deviates consumed by one shot): nuclides dealt out over the shards
    { long iters = a.i("climb", thorough ? 200000 : 25000); size_t ni = 0;
      for (auto & n : catalog::background_published()) {
        if ((ni++ % nsh) != (size_t)shard || iters <= 0) continue;
        Cfg c; c.kind = "bkg"; c.name = n; GenRun gr; init_gen(gr, c, mix(seed, std::hash<std::string>()(c.key())));
        if (gr.accepted) run_climb(cx, c, *gr.g, mix(seed, ni), iters);
      } }
  }
  // DBD grid
  auto grid = dbd_grid();
  int nev = a.i("dbd_evts", thorough ? (is04 ? 3000 : 2500) : (is04 ? 600 : 600));
  size_t idx = 0;
  for (auto & c : grid) {
    size_t my = idx++;
    uint64_t h = mix(seed, my * 2654435761ULL + (is04 ? 4 : 3));
    // every accepted (isotope, level, mode) cell is visited in both tiers (a sampled grid let a change confined to one daughter-level cascade slip
    // through 3 times out of 4); the cells with the sharpest oracle for a cascade - an excited level in a neutrinoless mode, where the visible
    // energy must EQUAL Q - get four times the events
    if (!mine()) continue;
    run_config(cx, c, seed, (c.level >= 1 && is_0nu(c.mode) && !is04) ? 4 * nev : nev, is04, "none");
    if (window_mode(c.mode) && (thorough || h % 2 == 0)) {
      auto it = REF_DBD.find(c.name);
      double e0 = it->second.Q - it->second.levelE[c.level] / 1000.0; if (it->second.Z < 0) e0 -= 4 * EMASS;
      if (c.mode == 10) e0 = it->second.Q - it->second.levelE[c.level] / 1000.0 - it->second.EK[c.level] - 2 * EMASS;
      if (e0 > 0.06) {
        Rng r(mix(seed, my * 97 + 11));
        int nw = thorough ? 6 : 2;
        for (int w = 0; w < nw; w++) {
          Cfg cw = c; cw.win = true; int wc = thorough ? w : (w == 0 ? r.range(0, 2) : r.range(3, 5));
          if (wc == 0) { cw.emin = std::round(r.uniform(0.05, 0.45) * e0 * 1000) / 1000; cw.emax = std::round(r.uniform(0.55, 0.95) * e0 * 1000) / 1000; }
          else if (wc == 1) { cw.emin = 0.0; cw.emax = 0.02 + std::round(r.uniform(0.01, 0.04) * 1000) / 1000; }
          else if (wc == 2) { cw.emin = std::round((e0 - 0.02 - r.uniform(0, 0.1) * e0) * 1000) / 1000; cw.emax = std::round((e0 + 0.5) * 1000) / 1000; }
          else if (wc == 3) { cw.emin = std::round(r.uniform(0.2, 0.7) * e0 * 1000) / 1000; cw.emax = std::numeric_limits<double>::quiet_NaN(); } // lower bound only
          else if (wc == 4) { cw.emin = std::numeric_limits<double>::quiet_NaN(); cw.emax = std::round(r.uniform(0.3, 0.8) * e0 * 1000) / 1000; }          // upper bound only
          else { cw.emin = -std::round(r.uniform(0.01, 1.0) * 1000) / 1000; cw.emax = std::round(r.uniform(0.3, 0.8) * e0 * 1000) / 1000; }                  // negative lower bound (means 0)
          static const char * wn[] = {"interior", "low-sliver", "high-sliver", "emin-only", "emax-only", "negative-emin"};
          if (wc >= 3 || cw.emin < cw.emax) run_config(cx, cw, seed, nev, is04, wn[wc]);
        }
        if (!is04 && (thorough || h % 4 == 0)) run_nested(cx, c, seed);
      }
    }
  }
  if (!is04) run_hopping(cx, seed, thorough, mine);
  if (a.s("lowpass", "1") != "0") run_low_pass(cx, a, seed, shard, nsh, thorough);
  return 0;
}

// ------------------------------------------------------------------ C05
static bool bit_equal(const bxdecay0::event & a, const bxdecay0::event & b, std::string & why)
{
  const auto & pa = a.get_particles(); const auto & pb = b.get_particles();
  if (pa.size() != pb.size()) { why = "particle count " + std::to_string(pa.size()) + " vs " + std::to_string(pb.size()); return false; }
  for (size_t i = 0; i < pa.size(); i++) {
    if (pa[i].get_code() != pb[i].get_code()) { why = "species differ at " + std::to_string(i); return false; }
    double x[4] = {pa[i].get_px(), pa[i].get_py(), pa[i].get_pz(), pa[i].get_time()}, y[4] = {pb[i].get_px(), pb[i].get_py(), pb[i].get_pz(), pb[i].get_time()};
    if (memcmp(x, y, sizeof x) != 0) { why = "momentum/time differ at particle " + std::to_string(i); return false; }
  }
  return true;
}

static Res c05_event(const Cfg & c, Tape & tape, size_t & used, bxdecay0::event & ev_out)
{
  Res r;
  bxdecay0::event e1, e2; int ier = 0; bxdecay0::bbpars pars;
  TapeRandom r1(tape, 0, DEV_LIMIT), r2(tape, 0, DEV_LIMIT);
  try {
    bxdecay0::genbbsub(r1, e1, bxdecay0::GENBBSUB_I2BBS_BACKGROUND, c.name, -1, -1, bxdecay0::GENBBSUB_ISTART_GENERATE, ier, pars);
  } catch (TapeOverrun &) { r.ok = false; r.cls = "unbounded-work"; r.msg = "overrun"; used = r1.pos; return r; }
  used = r1.pos; ev_out = e1;
  if (ier != 0) { r.ok = false; r.cls = "refused"; r.msg = "published name refused at generation"; return r; }
  const schemes::Scheme * s = schemes::find(c.name);
  if (!s) { r.ok = false; r.cls = "no-scheme-in-oracle"; r.msg = "oracle table has no entry for " + c.name; return r; }
  s->run(r2, e2);
  std::string why;
  if (!bit_equal(e1, e2, why)) { r.ok = false; r.cls = "not-own-scheme"; r.msg = "event of '" + c.name + "' differs from its own scheme on the same deviates: " + why; return r; }
  if (r1.pos != r2.pos) { r.ok = false; r.cls = "deviate-count"; r.msg = "deviates consumed " + std::to_string(r1.pos) + " vs scheme " + std::to_string(r2.pos); return r; }
  return r;
}

// event for name b must not be scheme(a) followed by scheme(b) (a a prefix of b), nor scheme(b)+scheme(a)
static Res c05_prefix_pair(const std::string & a, const std::string & b, Tape & tape)
{
  Res r;
  const schemes::Scheme * sa = schemes::find(a), * sb = schemes::find(b);
  if (!sa || !sb) return r;
  for (int target = 0; target < 2; target++) {
    const std::string & name = target == 0 ? b : a;
    const schemes::Scheme * own = target == 0 ? sb : sa, * other = target == 0 ? sa : sb;
    bxdecay0::event e1; int ier = 0; bxdecay0::bbpars pars; TapeRandom r1(tape, 0, DEV_LIMIT);
    bxdecay0::genbbsub(r1, e1, bxdecay0::GENBBSUB_I2BBS_BACKGROUND, name, -1, -1, bxdecay0::GENBBSUB_ISTART_GENERATE, ier, pars);
    for (int order = 0; order < 2; order++) {
      bxdecay0::event e2; TapeRandom r2(tape, 0, DEV_LIMIT);
      if (order == 0) { other->run(r2, e2); own->run(r2, e2); } else { own->run(r2, e2); other->run(r2, e2); }
      std::string why;
      if (bit_equal(e1, e2, why)) { r.ok = false; r.cls = "concatenation"; r.msg = "event of '" + name + "' is the concatenation of the decays of '" + a + "' and '" + b + "'"; return r; }
    }
  }
  return r;
}

static int run_c05(Ctx & cx, const Args & a)
{
  uint64_t seed = a.i("seed", 1); int shard = a.i("shard", 0), nsh = a.i("nshards", 1); bool thorough = a.s("tier", "quick") == "thorough";
  int nev = a.i("evts", thorough ? 400000 : 40000);
  auto names = catalog::background_published();
  // (1) own scheme, same deviates
  for (auto & n : names) {
    Cfg c; c.kind = "bkg"; c.name = n; std::vector<double> dict = dict_for(c);
    for (int k = shard; k < nev; k += nsh) {
      Tape tape; tape.seed = mix(mix(seed, 0xC05), mix(std::hash<std::string>()(n), k)); tape.prof = profile_for(splitmix64(tape.seed), false); tape.dict = &dict;
      Tape it; breadcrumb(cx, c, it, tape);
      size_t used = 0; bxdecay0::event ev; Res r = c05_event(c, tape, used, ev);
      cx.rep.evaluations++;
      if (!r.ok) { PropFn fn = [&](Tape & t) { size_t u; bxdecay0::event e; return c05_event(c, t, u, e); }; report_failure(cx, c, it, tape, r, fn, used); continue; }
      cx.rep.nt("own|" + n + "|" + path_sig(ev));
      if (cx.rep.samples.size() < 5 && tape.seed % 17 == 0) cx.rep.sample("{\"name\":" + jstr(n) + ",\"first_deviates\":" + jtape(tape.v, 6) + ",\"deviates_used\":" + std::to_string(used) + ",\"event_equals_own_scheme\":" + ev_json(ev) + "}");
    }
    cx.rep.label("own-scheme:" + n);
  }
  // (2) prefix pairs among all published names + scheme-table names
  std::vector<std::string> all = names; for (auto & s : schemes::extra_names()) all.push_back(s);
  int npairs = 0;
  for (auto & x : all) for (auto & y : all) {
    std::string bx = x.substr(0, x.find('+')), by = y.substr(0, y.find('+'));
    if (x == y || by.size() <= bx.size() || by.compare(0, bx.size(), bx) != 0) continue;
    if (!schemes::find(x) || !schemes::find(y)) continue;
    npairs++;
    int np = thorough ? 40000 : 4000;
    for (int k = shard; k < np; k += nsh) {
      Tape tape; tape.seed = mix(mix(seed, 0xC0502), mix(std::hash<std::string>()(x + "/" + y), k)); tape.prof = Profile();
      Res r = c05_prefix_pair(x, y, tape); cx.rep.evaluations++;
      if (!r.ok) { Cfg c; c.kind = "bkg"; c.name = y; Tape it; PropFn fn = [&](Tape & t) { return c05_prefix_pair(x, y, t); }; report_failure(cx, c, it, tape, r, fn, 0); continue; }
      cx.rep.nt("pair|" + x + "|" + y + "|" + std::to_string(k % 16));
    }
    cx.rep.label("prefix-pair:" + x + "<" + y);
  }
  cx.rep.counters["prefix_pairs"] = npairs;
  // (2') the double-beta entries with documented short-lived daughters (README appendix: Bi214 for Bi214+At214, Pb214 for Pb214+Po214, Po218 for
  // Po218+Rn218+Po214, Rn222 for Rn222+Ra222+Rn218+Po214): every event carries the two leptons of the primary process AND the alpha of every daughter
  // of the chain - the decay of that name is not complete without them
  {
    static const struct { const char * name; int nalpha; } CH[] = {{"Bi214", 1}, {"Pb214", 1}, {"Po218", 2}, {"Rn222", 3}};
    for (auto & ch : CH) for (int mode : {1, 4}) {
      Cfg c; c.kind = "dbd"; c.name = ch.name; c.level = 0; c.mode = mode; GenRun gr; init_gen(gr, c, mix(seed, 0xC4A1 + mode));
      if (!gr.accepted) continue;
      std::vector<double> dict = dict_for(c); bxdecay0::event ev; int nchain = thorough ? 20000 : 2000;
      for (int k = shard; k < nchain; k += nsh) {
        Tape tape; tape.seed = mix(mix(seed, 0xC4A2), mix(std::hash<std::string>()(c.key()), k)); tape.prof = profile_for(splitmix64(tape.seed), false); tape.dict = &dict;
        PropFn fn = [&](Tape & t) { Res r; TapeRandom rr(t, 0, DEV_LIMIT); bxdecay0::event e2; try { gr.g->shoot(rr, e2); } catch (std::exception & e) { r.ok = false; r.cls = "exception"; r.msg = e.what(); return r; }
          int na = 0, nl = 0; for (auto & p : e2.get_particles()) { if (p.is_alpha()) na++; if (p.is_electron()) nl++; }
          if (na != ch.nalpha) { r.ok = false; r.cls = "chain-daughters"; r.msg = std::string("double-beta event of '") + ch.name + "' carries " + std::to_string(na) + " alpha particle(s), its documented chain of short-lived daughters emits " + std::to_string(ch.nalpha); }
          else if (nl < 2) { r.ok = false; r.cls = "chain-daughters"; r.msg = std::string("double-beta event of '") + ch.name + "' carries fewer than two electrons"; }
          return r; };
        Res r = fn(tape); cx.rep.evaluations++;
        if (!r.ok) { Tape none; report_failure(cx, c, none, tape, r, fn, 0); break; }
      }
      cx.rep.label(std::string("dbd-chain:") + ch.name); cx.rep.nt(std::string("dbd-chain|") + ch.name + "|" + std::to_string(mode));
    }
  }
  // (3) catalogue set equalities and acceptance (shard 0 only; deterministic, finite)
  if (shard == 0) {
    auto add_fail = [&](const std::string & cls, const std::string & msg) {
      std::string sig = "C05|catalogue|" + cls; std::string kid = cx.known.match("C05", sig);
      if (!kid.empty()) { cx.rep.known[kid]++; return; }
      std::string path = cx.replaydir + "/C05-" + hash_name(sig) + ".json";
      std::ofstream(path) << "{\"property\":\"C05\",\"catalogue\":true,\"sig\":" << jstr(sig) << ",\"msg\":" << jstr(msg) << "}\n";
      cx.rep.failures.push_back({sig, msg, path});
    };
    auto setdiff = [](const std::set<std::string> & A, const std::set<std::string> & B) { std::string s; for (auto & x : A) if (!B.count(x)) s += x + " "; return s; };
    std::set<std::string> lis_b(names.begin(), names.end()), lis_d, rd_b, rd_d, api_b = bxdecay0::background_isotopes(), api_d = bxdecay0::dbd_isotopes();
    for (auto & n : catalog::dbd_published()) lis_d.insert(n);
    for (auto & n : catalog::readme_background()) rd_b.insert(n);
    for (auto & n : catalog::readme_dbd()) rd_d.insert(n);
    std::string d;
    if (!(d = setdiff(lis_b, rd_b)).empty()) add_fail("bkg-lis-not-in-readme:" + d, "background names in .lis but not in README: " + d);
    if (!(d = setdiff(rd_b, lis_b)).empty()) add_fail("bkg-readme-not-in-lis:" + d, "background names in README but not in .lis: " + d);
    if (!(d = setdiff(lis_b, api_b)).empty() || !(d = setdiff(api_b, lis_b)).empty()) add_fail("bkg-api-vs-lis:" + d, "background_isotopes() differs from .lis: " + d);
    if (!(d = setdiff(lis_d, rd_d)).empty()) add_fail("dbd-lis-not-in-readme:" + d, "dbd names in .lis but not in README: " + d);
    if (!(d = setdiff(rd_d, lis_d)).empty()) add_fail("dbd-readme-not-in-lis:" + d, "dbd names in README but not in .lis: " + d);
    if (!(d = setdiff(lis_d, api_d)).empty() || !(d = setdiff(api_d, lis_d)).empty()) add_fail("dbd-api-vs-lis:" + d, "dbd_isotopes() differs from .lis: " + d);
    cx.rep.evaluations += 6;
    // every published name initialises and shoots (both categories)
    for (auto & n : names) {
      Cfg c; c.kind = "bkg"; c.name = n; GenRun gr; init_gen(gr, c, mix(seed, 1)); cx.rep.evaluations++;
      if (!gr.accepted) { add_fail("published-bkg-refused:" + n, "published background name refused: " + gr.reject); continue; }
      Tape t; t.seed = mix(seed, 2); TapeRandom r(t); bxdecay0::event ev;
      try { gr.g->shoot(r, ev); if (ev.get_particles().empty()) add_fail("published-bkg-empty:" + n, "published name yields an empty event"); }
      catch (std::exception & e) { add_fail("published-bkg-throws:" + n, e.what()); }
      cx.rep.nt("accepts|" + n);
    }
    for (auto & n : catalog::dbd_published()) {
      Cfg c; c.kind = "dbd"; c.name = n; c.level = 0; c.mode = (REF_DBD.count(n) && REF_DBD.at(n).Z < 0) ? 12 : 1; GenRun gr; init_gen(gr, c, mix(seed, 3)); cx.rep.evaluations++;
      if (!gr.accepted) { add_fail("published-dbd-refused:" + n, "published dbd isotope refused (level 0, mode " + std::to_string(c.mode) + "): " + gr.reject); continue; }
      Tape t; t.seed = mix(seed, 4); TapeRandom r(t); bxdecay0::event ev;
      try { gr.g->shoot(r, ev); if (ev.get_particles().empty()) add_fail("published-dbd-empty:" + n, "published isotope yields an empty event"); }
      catch (std::exception & e) { add_fail("published-dbd-throws:" + n, e.what()); }
      cx.rep.nt("accepts-dbd|" + n);
    }
    // candidate universe: every accepted candidate base name must be published
    static const char * syms[] = {"H","He","Li","Be","B","C","N","O","F","Ne","Na","Mg","Al","Si","P","S","Cl","Ar","K","Ca","Sc","Ti","V","Cr","Mn","Fe","Co","Ni","Cu","Zn","Ga","Ge","As","Se","Br","Kr","Rb","Sr","Y","Zr","Nb","Mo","Tc","Ru","Rh","Pd","Ag","Cd","In","Sn","Sb","Te","I","Xe","Cs","Ba","La","Ce","Pr","Nd","Pm","Sm","Eu","Gd","Tb","Dy","Ho","Er","Tm","Yb","Lu","Hf","Ta","W","Re","Os","Ir","Pt","Au","Hg","Tl","Pb","Bi","Po","At","Rn","Fr","Ra","Ac","Th","Pa","U","Np","Pu","Am"};
    static const char * sufx[] = {"", "m"};
    // published spellings: the .lis names and the README short forms ("``Bi214`` (for ``Bi214+Po214``)")
    std::set<std::string> pub_b = lis_b; for (auto & n : names) pub_b.insert(n.substr(0, n.find('+')));
    int probed = 0, accepted = 0; std::string ext_list; int ext_n = 0;
    for (auto sy : syms) for (int A = 1; A <= 260; A++) for (auto sf : sufx) {
      std::string cand = std::string(sy) + std::to_string(A) + sf; probed++;
      bxdecay0::event ev; int ier = 0; bxdecay0::bbpars pars; Tape t; t.seed = 5; TapeRandom r(t);
      bxdecay0::genbbsub(r, ev, bxdecay0::GENBBSUB_I2BBS_BACKGROUND, cand, -1, -1, bxdecay0::GENBBSUB_ISTART_INIT, ier, pars);
      if (ier == 0) {
        accepted++;
        if (!pub_b.count(cand)) {
          bool extension = false; for (auto & p : pub_b) if (cand.size() > p.size() && cand.compare(0, p.size(), p) == 0) extension = true;
          if (extension) { ext_n++; if (ext_n <= 25) ext_list += cand + " "; }
          else add_fail("accepts-unpublished-bkg:" + cand, "generator accepts background name '" + cand + "' which is neither published nor an extension of a published name");
        }
      }
      if (A <= 230 && sf[0] == 0) {
        int ier2 = 0; bxdecay0::bbpars p2; bxdecay0::event e2; Tape t2; t2.seed = 6; TapeRandom r2(t2);
        try { bxdecay0::genbbsub(r2, e2, bxdecay0::GENBBSUB_I2BBS_DBD, cand, 0, 1, bxdecay0::GENBBSUB_ISTART_INIT, ier2, p2); } catch (std::exception &) { ier2 = 1; }
        if (ier2 != 0) { ier2 = 0; bxdecay0::bbpars p3; bxdecay0::event e3; TapeRandom r3(t2); try { bxdecay0::genbbsub(r3, e3, bxdecay0::GENBBSUB_I2BBS_DBD, cand, 0, 12, bxdecay0::GENBBSUB_ISTART_INIT, ier2, p3); } catch (std::exception &) { ier2 = 1; } }
        if (ier2 == 0 && !lis_d.count(cand)) add_fail("accepts-unpublished-dbd:" + cand, "generator accepts dbd isotope '" + cand + "' which is not published");
      }
    }
    if (ext_n) add_fail("accepts-unpublished-extension", std::to_string(ext_n) + " unpublished names that merely extend a published name are accepted and silently generate the shorter nuclide (prefix matching), e.g. " + ext_list);
    cx.rep.evaluations += probed; cx.rep.counters["candidate_names_probed"] = probed; cx.rep.counters["candidate_names_accepted"] = accepted;
    // modes: .lis == README table == dbd_modes()
    auto lm = catalog::lis_modes(); auto rm = catalog::readme_modes(); const auto & am = bxdecay0::dbd_modes();
    for (auto & m : lm) {
      cx.rep.evaluations++;
      auto it = rm.find(m.first);
      if (it == rm.end()) add_fail("mode-not-in-readme:" + std::to_string(m.first), "mode " + std::to_string(m.first) + " of dbd_modes.lis is not in the README table");
      else if (it->second.first != m.second.first || it->second.second != m.second.second) add_fail("mode-differs:" + std::to_string(m.first), "mode " + std::to_string(m.first) + ": .lis (" + m.second.first + "," + std::to_string(m.second.second) + ") vs README (" + it->second.first + "," + std::to_string(it->second.second) + ")");
      auto ia = am.find((bxdecay0::dbd_mode_type)m.first);
      if (ia == am.end() || ia->second.unique_label != m.second.first) add_fail("mode-api:" + std::to_string(m.first), "dbd_modes() disagrees with dbd_modes.lis for mode " + std::to_string(m.first));
      else if (bxdecay0::dbd_mode_from_label(m.second.first) != (bxdecay0::dbd_mode_type)m.first) add_fail("mode-label-roundtrip:" + std::to_string(m.first), "label " + m.second.first + " does not map back to mode " + std::to_string(m.first));
      cx.rep.nt("mode|" + std::to_string(m.first));
    }
    if (rm.size() != lm.size() || am.size() != lm.size()) add_fail("mode-count", "mode counts differ: lis=" + std::to_string(lm.size()) + " readme=" + std::to_string(rm.size()) + " api=" + std::to_string(am.size()));
  }
  return 0;
}

// ------------------------------------------------------------------ C04: targeted search for runaway cascades
// "at most 100 particles, bounded work" cannot be refuted by sampling when the offending path needs the same improbable branch again and again (a
// cycle in a cascade graph: each trip costs a factor 1e-2..1e-4, 45 trips 1e-45).  Hill climbing on the tape can: the objective is the number of
// PARTICLES of the event (not the deviates consumed: a rejection loop can be kept spinning by an adversarial, probability-zero sequence of deviates,
// which is not what the property is about); a step re-draws the tape from one position on (biased to the tail, steered onto the reference thresholds)
// and is kept when the event has at least as many particles.  On a cascade graph without cycles the climb levels off at the longest cascade; with a
// cycle every further trip is one accepted step until the event exceeds 100 particles.  Every shot goes through the validity predicate; a shot that
// exhausts the deviate budget during the climb is inconclusive (counted), never a violation.
static void run_climb(Ctx & cx, const Cfg & c, G & g, uint64_t seed, long iters)
{
  std::vector<double> dict = dict_for(c); bxdecay0::event ev; Tape none;
  Tape best; best.seed = mix(seed, 0xC11B); best.prof.p_plain = 0.5; best.prof.w_dict = 3; best.prof.w_low = best.prof.w_high = 0.25; best.dict = &dict;
  size_t used_best = 0, np_best = 0;
  { size_t u = 0; Res r0 = shoot_and_check(cx, c, g, best, u, ev, 0); if (!r0.ok) return; used_best = u; np_best = ev.get_particles().size(); }   // (the sampled passes report what a plain shot shows)
  Rng rr(mix(seed, 0x5eac));
  for (long it = 0; it < iters; it++) {
    Tape t = best; size_t n = std::max<size_t>(1, used_best);
    size_t j = rr.chance(0.7) ? n - 1 - (size_t)rr.range(0, (int)std::min<size_t>(n - 1, 24)) : (size_t)rr.range(0, (int)n - 1);
    t.v.resize(std::min(t.v.size(), j)); t.seed = mix(best.seed, 977 * (uint64_t)it + 13);   // positions >= j are drawn afresh (same steering profile)
    size_t u = 0; Res r = shoot_and_check(cx, c, g, t, u, ev, 0);
    cx.rep.evaluations++;
    if (!r.ok && r.cls == "unbounded-work") { cx.rep.count("climb_shot_exhausted_deviate_budget_inconclusive"); continue; }
    if (!r.ok) {
      if (!cx.known.match(cx.prop, cx.prop + "|" + c.name + "|L0|M0|-|" + r.cls).empty()) continue;   // a recorded finding met on the way: not the target of the climb
      PropFn fn = [&](Tape & tt) { size_t uu; bxdecay0::event e2; return shoot_and_check(cx, c, g, tt, uu, e2, 0); };
      t.at(u ? u - 1 : 0); report_failure(cx, c, none, t, r, fn, u); cx.rep.label("climb-ended-in-violation:" + r.cls); return;
    }
    size_t np = ev.get_particles().size();
    if (np >= np_best) { if (np > np_best) cx.rep.count("climb_steps_up"); t.at(u ? u - 1 : 0); best = t; used_best = u; np_best = np; }
  }
  cx.rep.nt("climb|" + c.name + "|np" + std::to_string(np_best));
  cx.rep.labels["climb-longest-event-particles:" + c.name] = np_best;
}

// ------------------------------------------------------------------ cascade-level pass (C03: energy closure, C04: validity)
// Every de-excitation routine <Nuclide>low(levelkeV) is called directly for every entry level the reference text tabulates: the cascade of a daughter
// level never depends on the primary leptons, which cost most of a double-beta event, so tens of thousands of steered tapes per level are affordable.
// C03 oracle: whatever path is taken, the emitted energy (gamma energies + electron kinetic energies + X-rays, + 1.022 MeV per positron) adds up to the
// entry level energy (tolerance 3 keV, as for whole events).  C04 oracle: the validity predicate on the particles (species, finite momenta, times).
static Res low_case(const std::string & prop, const Cfg & c, Tape & tape, size_t & used, bxdecay0::event & ev)
{
  Res r; auto fail = [&](const std::string & cls, const std::string & m) { if (r.ok) { r.ok = false; r.cls = cls; r.msg = m; } };
  ev = bxdecay0::event(); ev.set_time(0.0); ev.set_generator(c.name);
  TapeRandom rnd(tape, 0, DEV_LIMIT);
  try { REF_LOW.at(c.name).fn(rnd, ev, c.level); }
  catch (TapeOverrun &) { used = rnd.pos; fail("unbounded", "cascade consumed more than " + std::to_string(DEV_LIMIT) + " deviates"); return r; }
  catch (std::exception & e) { used = rnd.pos; fail("exception", std::string("cascade raised: ") + e.what()); return r; }
  used = rnd.pos;
  digest_event(c.key(), ev, used);
  const auto & ps = ev.get_particles();
  if (prop == "C04") {
    if (ps.size() > 100) fail("too-many", "cascade has " + std::to_string(ps.size()) + " particles (>100)");
    if (c.level > 0 && ps.empty()) fail("empty", "no particle although the entry level is " + std::to_string(c.level) + " keV");
    double tprev = 0;
    for (size_t i = 0; i < ps.size(); i++) {
      const auto & p = ps[i]; int code = (int)p.get_code();
      if (!(code == 1 || code == 2 || code == 3)) fail("species", "cascade particle " + std::to_string(i) + " has code " + std::to_string(code));
      if (!std::isfinite(p.get_px()) || !std::isfinite(p.get_py()) || !std::isfinite(p.get_pz())) { fail("momentum-nonfinite", "cascade particle " + std::to_string(i) + " has non-finite momentum"); continue; }
      double k = kin(p); if (!(k >= 0) || k > c.level / 1000.0 + 0.003) fail("energy-range", "cascade particle " + std::to_string(i) + " kinetic energy " + jnum(k) + " MeV outside [0, level energy]");
      double t = p.get_time(); if (!std::isfinite(t)) { fail("time-nonfinite", "cascade particle " + std::to_string(i) + " has non-finite time"); continue; }
      if (t < 0) fail("time-negative", "cascade particle " + std::to_string(i) + " has negative time " + jnum(t));
      if (t < tprev) fail("time-order", "cascade particle " + std::to_string(i) + " time " + jnum(t) + " < previous " + jnum(tprev));
      tprev = t;
    }
  } else {
    double evis = 0; bool finite = true;
    for (auto & p : ps) { double k = kin(p); if (!std::isfinite(k)) finite = false; evis += k; if (p.is_positron()) evis += 1.022; }
    if (!finite) fail("momentum-nonfinite", "cascade particle with non-finite momentum");
    else if (std::fabs(evis - c.level / 1000.0) > 0.003) fail("cascade-budget", "energy released by the cascade " + jnum(evis) + " MeV != entry level " + jnum(c.level / 1000.0) + " MeV: " + path_sig(ev));
  }
  return r;
}
static void run_low_pass(Ctx & cx, const Args & a, uint64_t seed, int shard, int nsh, bool thorough)
{
  long long nlow = a.i("lowevts", thorough ? 1000000 : 30000);
  size_t k = 0;
  for (auto & kv : REF_LOW) {
    if (!kv.second.fn) continue;
    for (int lev : kv.second.levels) {
      if ((k++ % nsh) != (size_t)shard) continue;
      Cfg c; c.kind = "low"; c.name = kv.first; c.level = lev; c.mode = 0;
      std::vector<double> dict; { auto d = REF_DICT.find(kv.first); if (d != REF_DICT.end()) dict = d->second; }
      cx.rep.label("low:" + kv.first);
      bxdecay0::event ev; Tape none;
      for (long long e = 0; e < nlow; e++) {
        Tape tape; tape.seed = mix(mix(seed, 0x10f), mix(k, e)); tape.prof = profile_for(splitmix64(tape.seed), cx.prop == "C04"); tape.dict = &dict;
        breadcrumb(cx, c, none, tape);
        size_t used = 0; Res r = low_case(cx.prop, c, tape, used, ev);
        cx.rep.evaluations++;
        if (!r.ok) { PropFn fn = [&](Tape & t) { size_t u; bxdecay0::event e2; return low_case(cx.prop, c, t, u, e2); }; report_failure(cx, c, none, tape, r, fn, used); continue; }
        cx.rep.nt(c.key() + "|" + path_sig(ev));
      }
    }
  }
}

// ------------------------------------------------------------------ replay
static int run_replay(Ctx & cx, const std::string & file)
{
  JV j = jload(file);
  if (j.has("catalogue")) { printf("catalogue finding: re-run the check (deterministic)\n"); return 3; }
  if (j.has("hopping")) { const JV & h = j.at("hopping"); Res r = hop_case(Cfg::from(h.at("first")), Cfg::from(h.at("second")), strtoull(h.s("case_seed", "0").c_str(), nullptr, 10)); if (!r.ok) { printf("REPLAY-FAIL class=%s %s\n", r.cls.c_str(), r.msg.c_str()); return 1; } printf("REPLAY-PASS\n"); return 0; }
  Cfg c = Cfg::from(j.at("config"));
  Tape tape; tape.seed = strtoull(j.s("tape_seed", "0").c_str(), nullptr, 10);
  if (j.has("profile")) { auto p = jtape_read(j.at("profile")); if (p.size() == 4) { tape.prof.p_plain = p[0]; tape.prof.w_low = p[1]; tape.prof.w_high = p[2]; tape.prof.w_dict = p[3]; } }
  std::vector<double> dict = dict_for(c); tape.dict = &dict;
  if (j.has("tape")) tape.v = jtape_read(j.at("tape"));
  Res r;
  if (c.kind == "low") { auto d = REF_DICT.find(c.name); if (d != REF_DICT.end()) dict = d->second; size_t u; bxdecay0::event ev; r = low_case(cx.prop, c, tape, u, ev); printf("event=%s\n", ev_json(ev).c_str()); }
  else if (cx.prop == "C05") { size_t u; bxdecay0::event ev; r = c05_event(c, tape, u, ev); }
  else {
    GenRun gr; uint64_t iseed = strtoull(j.s("init_tape_seed", "0").c_str(), nullptr, 10);
    gr.g.reset(new G); gr.itape.seed = iseed; if (j.has("init_tape")) gr.itape.v = jtape_read(j.at("init_tape"));
    TapeRandom ri(gr.itape, 0, DEV_LIMIT);
    try { configure(*gr.g, c); gr.g->initialize(ri); vf::redzones(gr.g->get_bb_params(), true); } catch (std::exception & e) { printf("REPLAY: configuration rejected: %s\n", e.what()); return 0; }
    if (j.has("nested_of")) { printf("nested-window finding: toallevents=%s\n", jnum(gr.g->get_to_all_events()).c_str()); return 3; }
    size_t used; bxdecay0::event ev; r = shoot_and_check(cx, c, *gr.g, tape, used, ev, qmax_for(c));
    printf("event=%s\n", ev_json(ev).c_str());
  }
  if (!r.ok) { printf("REPLAY-FAIL class=%s %s\n", r.cls.c_str(), r.msg.c_str()); return 1; }
  printf("REPLAY-PASS\n"); return 0;
}

#ifndef GENCHECK_NO_MAIN
int main(int argc, char ** argv)
{
  Args a(argc, argv);
  Ctx cx; cx.prop = a.s("prop", "C04"); cx.rep.prop = cx.prop; cx.replaydir = a.s("replaydir", "replay");
  if (a.has("known")) cx.known.load(a.s("known"));
  cx.breadcrumb = a.has("breadcrumb"); cx.curfile = a.s("out", "report.json") + ".cur";
  int out_fd = dup(1);
  silence_stdio(true, false);
  // the library is chatty on stderr ("[error] ..."); keep stderr only for sanitizer reports: route cerr/clog to /dev/null
  static std::ofstream devnull("/dev/null");
  if (!a.has("verbose")) { std::cerr.rdbuf(devnull.rdbuf()); std::clog.rdbuf(devnull.rdbuf()); }
  FILE * res = fdopen(out_fd, "w");
  int rc = 0;
  try {
    if (a.has("replay")) { fflush(stdout); dup2(out_fd, 1); rc = run_replay(cx, a.s("replay")); fflush(stdout); return rc; }
    static std::map<std::string, std::pair<uint64_t, uint64_t>> digests; if (a.has("digest")) g_digest = &digests;
    if (cx.prop == "C05") rc = run_c05(cx, a); else rc = run_c03_c04(cx, a);
    if (a.has("digest")) { std::ofstream o(a.s("digest") + "." + std::to_string(a.i("shard", 0))); for (auto & kv : digests) o << kv.first << "\t" << kv.second.first << "\t" << kv.second.second << "\n"; }
  } catch (std::exception & e) { fprintf(res, "HARNESS-ERROR %s\n", e.what()); fflush(res); return 2; }
  cx.rep.write(a.s("out", "report.json"));
  unlink(cx.curfile.c_str());
  fprintf(res, "done evaluations=%llu failures=%zu\n", (unsigned long long)cx.rep.evaluations, cx.rep.failures.size()); fflush(res);
  return rc;
}
#endif
