// catalog.hpp -- published names (read from the repo's resource list files by our own
// parser, not through the library under test) and reference-derived isotope tables.
#ifndef CATALOG_HPP
#define CATALOG_HPP
#include <fstream>
#include <string>
#include <vector>
#include <cstdlib>
namespace catalog {
inline std::string resource_dir()
{
  const char * e = getenv("VERIF_REPO"); std::string r = e ? e : "/repo";
  return r + "/resources";
}
inline std::vector<std::string> read_list(const std::string & file)
{
  std::vector<std::string> v; std::ifstream f(resource_dir() + "/description/" + file); std::string l;
  while (std::getline(f, l)) {
    size_t a = l.find_first_not_of(" \t\r"); if (a == std::string::npos || l[a] == '#') continue;
    size_t b = l.find_first_of(" \t\r", a); v.push_back(l.substr(a, b == std::string::npos ? std::string::npos : b - a));
  }
  return v;
}
inline const std::vector<std::string> & background_published() { static std::vector<std::string> v = read_list("background_isotopes.lis"); return v; }
inline const std::vector<std::string> & dbd_published() { static std::vector<std::string> v = read_list("dbd_isotopes.lis"); return v; }
#ifdef REF_DBD_AVAILABLE
#endif
} // namespace catalog
#endif
