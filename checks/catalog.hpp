// catalog.hpp -- published names (read from the repo's resource list files by our own
// parser, not through the library under test) and reference-derived isotope tables.
#ifndef CATALOG_HPP
#define CATALOG_HPP
#include <fstream>
#include <string>
#include <vector>
#include <map>
#include <cstdlib>
#include <cstring>
namespace catalog {
inline std::string resource_dir()
{
  const char * e = getenv("VERIF_REPO"); std::string r = e ? e : "/repo";
  return r + "/resources";
}
inline std::vector<std::string> read_list(const std::string & file)
{
  std::vector<std::string> v; std::ifstream f(resource_dir() + "/description/" + file); std::string l;
  while (std::getline(f, l)) {
    size_t a = l.find_first_not_of(" \t\r"); if (a == std::string::npos || l[a] == '#') continue;
    size_t b = l.find_first_of(" \t\r", a); v.push_back(l.substr(a, b == std::string::npos ? std::string::npos : b - a));
  }
  return v;
}
inline const std::vector<std::string> & background_published() { static std::vector<std::string> v = read_list("background_isotopes.lis"); return v; }
inline const std::vector<std::string> & dbd_published() { static std::vector<std::string> v = read_list("dbd_isotopes.lis"); return v; }

// ---- README.rst appendix (our own parser; the README is the published catalogue)
inline std::vector<std::string> readme_lines()
{
  const char * e = getenv("VERIF_REPO"); std::string r = e ? e : "/repo";
  std::vector<std::string> v; std::ifstream f(r + "/README.rst"); std::string l; while (std::getline(f, l)) v.push_back(l); return v;
}
inline std::vector<std::string> readme_section(const std::string & title)
{
  std::vector<std::string> out; auto L = readme_lines(); bool in = false;
  for (size_t i = 0; i < L.size(); i++) {
    bool is_title = i + 1 < L.size() && L[i + 1].size() >= 3 && L[i + 1].find_first_not_of("-=") == std::string::npos && !L[i].empty();
    if (is_title) { if (in) break; if (L[i].find(title) == 0) { in = true; i++; continue; } }
    if (in) out.push_back(L[i]);
  }
  return out;
}
inline std::string first_literal(const std::string & l, size_t from = 0)
{ size_t a = l.find("``", from); if (a == std::string::npos) return ""; size_t b = l.find("``", a + 2); if (b == std::string::npos) return ""; return l.substr(a + 2, b - a - 2); }
inline std::vector<std::string> readme_background()
{
  std::vector<std::string> v;
  for (auto & l : readme_section("List of standard radioactive isotopes")) {
    if (l.compare(0, 2, "* ") != 0) continue;
    std::string n = first_literal(l); size_t f = l.find("(for ``");
    if (f != std::string::npos) n = first_literal(l, f);
    if (!n.empty()) v.push_back(n);
  }
  return v;
}
inline std::vector<std::string> readme_dbd()
{
  std::vector<std::string> v;
  for (auto & l : readme_section("List of supported  double beta decay isotopes")) { if (l.compare(0, 2, "* ") != 0) continue; std::string n = first_literal(l); if (!n.empty()) v.push_back(n); }
  return v;
}
// energy (MeV) of daughter level `lev` of isotope `iso` from the README appendix, -1 if absent
inline double readme_level_energy(const std::string & iso, int lev)
{
  static std::map<std::string, std::vector<double>> tab;
  if (tab.empty()) {
    std::string cur;
    for (auto & l : readme_section("List of daughter nucleus excited states")) {
      if (l.compare(0, 2, "* ") == 0) { cur = first_literal(l); continue; }
      // "  4. 2+ (3) {2.080 MeV}" -- the README has a few "(2.080 MeV}" typos: take the number in front of "MeV"
      size_t mv = l.find("MeV"); if (cur.empty() || mv == std::string::npos) continue;
      size_t b = mv; while (b > 0 && (isdigit((unsigned char)l[b - 1]) || l[b - 1] == '.' || l[b - 1] == ' ')) b--;
      size_t a = l.find_first_not_of(" "); if (a == std::string::npos || !isdigit((unsigned char)l[a])) continue;
      int k = atoi(l.c_str() + a);
      double e = atof(l.c_str() + b);
      auto & v = tab[cur]; if ((int)v.size() <= k) v.resize(k + 1, -1.0); v[k] = e;
    }
  }
  auto it = tab.find(iso); if (it == tab.end() || lev < 0 || lev >= (int)it->second.size()) return -1.0; return it->second[lev];
}
inline int readme_level_count(const std::string & iso) { int n = 0; while (readme_level_energy(iso, n) >= 0) n++; return n; }
// mode id -> (label, legacy id or -1)
inline std::map<int, std::pair<std::string, int>> lis_modes()
{
  std::map<int, std::pair<std::string, int>> m; std::ifstream f(resource_dir() + "/description/dbd_modes.lis"); std::string l;
  while (std::getline(f, l)) { size_t a = l.find_first_not_of(" \t"); if (a == std::string::npos || l[a] == '#') continue; int id, leg; char lab[64]; if (sscanf(l.c_str(), "%d %63s %d", &id, lab, &leg) == 3) m[id] = {lab, leg}; }
  return m;
}
inline std::map<int, std::pair<std::string, int>> readme_modes()
{
  std::map<int, std::pair<std::string, int>> m;
  for (auto & l : readme_section("List of supported double beta decay modes")) {
    if (l.compare(0, 10, "``DBDMODE_") != 0) continue;
    std::vector<std::string> tok; size_t pos = 0;
    while (true) { size_t q = l.find("``", pos); if (q == std::string::npos) { tok.push_back(l.substr(pos)); break; } tok.push_back(l.substr(pos, q - pos)); pos = q + 2; }
    if (tok.size() < 5) continue;
    int id = atoi(tok[1].c_str() + 8); std::string lab = tok[3];
    size_t p = tok[4].find_first_not_of(" ");
    int leg = (p == std::string::npos || tok[4].compare(p, 2, "NA") == 0) ? -1 : atoi(tok[4].c_str() + p);
    m[id] = {lab, leg};
  }
  return m;
}
} // namespace catalog
#endif
