// history.cc -- C07: an event depends only on configuration and deviates, never on history or object reuse.
//
// rapidcheck generates API histories over a pool of generator instances and event objects (whole-sequence
// shrinking).  Oracle at every shot: a FRESH generator initialised with the same init-tape writes into a FRESH event
// from the same shot-tape -- the result must be bit-identical.
#include <cmath>
#include <iostream>
#include <map>
#include <memory>
#include <set>
#include <tuple>
#include <unistd.h>
#include <rapidcheck.h>

#include <sys/wait.h>
#include <bxdecay0/decay0_generator.h>
#include <bxdecay0/mdl_event_op.h>
#include "../engine/vf.hpp"
#include "refdict.inc"
#include "catalog.hpp"

using namespace vf;
typedef bxdecay0::decay0_generator G;

struct CfgT { const char * kind; const char * name; int level, mode; double emin, emax; int mdl = 0; CfgT(const char * k, const char * n, int l, int m, double a, double b, int md = 0) : kind(k), name(n), level(l), mode(m), emin(a), emax(b), mdl(md) {} };
// post-generation operation variants (momentum-direction lock) that are part of a configuration: {label code, rank, phi, theta, aperture, aperture2 (<0: none)} in degrees
static const struct MdlT { bxdecay0::particle_code code; int rank; double phi, theta, ap, ap2; } MDLS[] = {
  {bxdecay0::INVALID_PARTICLE, 0, 0, 0, 0, -1}, // [0] unused
  {bxdecay0::GAMMA, 0, 30, 60, 10, -1}, {bxdecay0::GAMMA, 0, 200, 120, 40, -1}, {bxdecay0::ELECTRON, 0, 0, 0, 5, -1}, {bxdecay0::ELECTRON, -1, 90, 90, 25, -1},
  {bxdecay0::INVALID_PARTICLE, 0, 45, 45, 20, 8}, {bxdecay0::ALPHA, 0, 300, 10, 60, -1}, {bxdecay0::INVALID_PARTICLE, 1, 10, 170, 0, -1}, {bxdecay0::POSITRON, 0, 120, 75, 15, 3}};
static const int NMDL = 8;
// configurations with angular correlations, deep cascades, chains, windows, 4b, b+ modes
static const CfgT CFGS_FIXED[] = {
  {"bkg", "Co60", 0, 0, 0, 0}, {"bkg", "Bi207+Pb207m", 0, 0, 0, 0}, {"bkg", "Tl208", 0, 0, 0, 0}, {"bkg", "Bi214+Po214", 0, 0, 0, 0},
  {"bkg", "Y90", 0, 0, 0, 0}, {"bkg", "K40", 0, 0, 0, 0}, {"bkg", "Eu152", 0, 0, 0, 0}, {"bkg", "Ac228", 0, 0, 0, 0},
  {"dbd", "Mo100", 3, 3, 0, 0}, {"dbd", "Ge76", 3, 3, 0, 0}, {"dbd", "Nd150", 3, 3, 0, 0}, {"dbd", "Mo100", 0, 1, 0, 0},
  {"dbd", "Nd150", 0, 20, 0, 0}, {"dbd", "Cd106", 1, 9, 0, 0}, {"dbd", "Se82", 0, 4, 0.8, 2.2}, {"dbd", "Rn222", 0, 1, 0, 0},
  {"dbd", "Mo100", 1, 7, 0, 0}, {"dbd", "Ru96", 0, 12, 0, 0}, {"dbd", "Bi214", 0, 1, 0, 0}, {"dbd", "Pb214", 0, 4, 0, 0}, {"dbd", "Po218", 0, 1, 0, 0},
};
// the fixed list above (angular correlations, deep cascades, chains, windows, 4b, b+ modes) plus EVERY published background name,
// so that any two nuclides can follow each other in one thread (hidden state shared across nuclides)
static std::vector<CfgT> & cfgs()
{
  static std::vector<CfgT> v; static std::vector<std::string> names;
  if (v.empty()) {
    for (auto & c : CFGS_FIXED) v.push_back(c);
    names = catalog::background_published();
    for (auto & n : names) { bool dup = false; for (auto & c : CFGS_FIXED) if (n == c.name) dup = true; if (!dup) v.push_back({"bkg", n.c_str(), 0, 0, 0, 0}); }
    // two configurations for every legacy double-beta mode (different isotopes): state that a mode's spectrum helpers share between live
    // instances only shows when two instances of the SAME mode exist in one process
    static const CfgT twice[] = {{"dbd", "Se82", 0, 1, 0, 0}, {"dbd", "Mo100", 0, 2, 0, 0}, {"dbd", "Mo100", 1, 3, 0, 0}, {"dbd", "Xe136", 0, 4, 0, 0}, {"dbd", "Mo100", 0, 5, 0, 0}, {"dbd", "Se82", 0, 6, 0, 0},
      {"dbd", "Se82", 1, 7, 0, 0}, {"dbd", "Se82", 1, 8, 0, 0}, {"dbd", "Ru96", 0, 9, 0, 0}, {"dbd", "Cd106", 0, 10, 0, 0}, {"dbd", "Cd106", 0, 11, 0, 0}, {"dbd", "Cd106", 0, 12, 0, 0}, {"dbd", "Mo100", 0, 13, 0, 0},
      {"dbd", "Mo100", 0, 14, 0, 0}, {"dbd", "Mo100", 0, 15, 0, 0}, {"dbd", "Mo100", 1, 16, 0, 0}, {"dbd", "Mo100", 0, 17, 0, 0}, {"dbd", "Se82", 0, 18, 0, 0}, {"dbd", "Mo100", 0, 19, 0, 0}, {"dbd", "Zr96", 0, 20, 0, 0},
      {"dbd", "Xe136", 0, 5, 0, 0}, {"dbd", "Cd116", 0, 6, 0, 0}, {"dbd", "Nd150", 0, 13, 0, 0}, {"dbd", "Ca48", 0, 14, 0, 0}, {"dbd", "Zr96", 0, 15, 0, 0}, {"dbd", "Te130", 1, 8, 0, 0}, {"dbd", "Ce136", 0, 11, 0, 0},
      {"dbd", "Ru96", 0, 10, 0, 0}, {"dbd", "Mo100", 0, 4, 0.5, 2.0}, {"dbd", "Xe136", 1, 16, 0.2, 1.0}, {"dbd", "Cd116", 0, 19, 0, 0}, {"dbd", "Nd150", 0, 2, 0, 0}, {"dbd", "Nd150", 0, 17, 0, 0}, {"dbd", "Mo100", 0, 18, 0, 0},
      {"dbd", "Mo100", 2, 1, 0, 0}, {"dbd", "Cd106", 0, 9, 0, 0}, {"dbd", "Xe136", 0, 20, 0, 0}};
    for (auto & c : twice) v.push_back(c);
    // the same decays with a momentum-direction-lock operation registered, in several variants (different species, cones, apertures):
    // state kept by an operation across instances is history, too
    static const int base[] = {0, 1, 2, 3, 5, 8, 11, 13, 15}; int k = 0;
    for (int b : base) for (int j = 0; j < 4; j++) { CfgT c = CFGS_FIXED[b]; c.mdl = 1 + (k++ % NMDL); v.push_back(c); }
  }
  return v;
}
#define CFGS (cfgs())
#define NCFG ((int)cfgs().size())
static void configure(G & g, const CfgT & c)
{
  if (std::string(c.kind) == "bkg") { g.set_decay_category(G::DECAY_CATEGORY_BACKGROUND); g.set_decay_isotope(c.name); }
  else {
    g.set_decay_category(G::DECAY_CATEGORY_DBD); g.set_decay_isotope(c.name); g.set_decay_dbd_level(c.level); g.set_decay_dbd_mode((bxdecay0::dbd_mode_type)c.mode);
    if (c.emax > 0) g.set_decay_dbd_esum_range(c.emin, c.emax);
  }
  if (c.mdl) {
    const MdlT & m = MDLS[c.mdl]; auto op = std::make_shared<bxdecay0::momentum_direction_lock_event_op>(); const double d = M_PI / 180;
    if (m.ap2 >= 0) op->set_with_aperture_rectangular_cut(m.code, m.rank, m.phi * d, m.theta * d, m.ap * d, m.ap2 * d, false); else op->set(m.code, m.rank, m.phi * d, m.theta * d, m.ap * d, false);
    g.add_operation(op);
  }
}

enum OpKind { CREATE, SHOOT, RESET_REINIT, DESTROY, RECONFIG /* reset(), then ANOTHER configuration on the same object, initialise */, NOPS };
struct Op { int kind, slot, cfg, evkind, junk; uint32_t tseed; };
static const char * EVK[] = {"fresh", "reused", "prefilled", "shrunk"};
static std::string op_str(const Op & o)
{
  char b[160];
  switch (o.kind) {
  case CREATE: snprintf(b, sizeof b, "create(slot %d, %s:%s L%d M%d%s, initseed %u)", o.slot, CFGS[o.cfg].kind, CFGS[o.cfg].name, CFGS[o.cfg].level, CFGS[o.cfg].mode, CFGS[o.cfg].mdl ? (" +mdl#" + std::to_string(CFGS[o.cfg].mdl)).c_str() : "", o.tseed); break;
  case SHOOT: snprintf(b, sizeof b, "shoot(slot %d, tape %u, event %s%s)", o.slot, o.tseed, EVK[o.evkind], o.evkind == 2 ? (" x" + std::to_string(o.junk)).c_str() : ""); break;
  case RESET_REINIT: snprintf(b, sizeof b, "reset+reinit(slot %d)", o.slot); break;
  case RECONFIG: snprintf(b, sizeof b, "reset+reconfigure(slot %d, %s:%s L%d M%d%s, initseed %u)", o.slot, CFGS[o.cfg].kind, CFGS[o.cfg].name, CFGS[o.cfg].level, CFGS[o.cfg].mode, CFGS[o.cfg].mdl ? (" +mdl#" + std::to_string(CFGS[o.cfg].mdl)).c_str() : "", o.tseed); break;
  default: snprintf(b, sizeof b, "destroy(slot %d)", o.slot);
  }
  return b;
}
static std::string ops_json(const std::vector<Op> & v)
{
  std::string o = "[";
  for (size_t i = 0; i < v.size(); i++) { if (i) o += ","; char b[120]; snprintf(b, sizeof b, "[%d,%d,%d,%d,%d,%u]", v[i].kind, v[i].slot, v[i].cfg, v[i].evkind, v[i].junk, v[i].tseed); o += b; }
  return o + "]";
}
static std::string ops_str(const std::vector<Op> & v) { std::string o; for (size_t i = 0; i < v.size(); i++) { if (i) o += " ; "; o += op_str(v[i]); } return o; }

static bool same_event(const bxdecay0::event & a, const bxdecay0::event & b, std::string & why)
{
  if (a.get_generator() != b.get_generator()) { why = "generator label"; return false; }
  if (!(a.get_time() == b.get_time())) { why = "event time"; return false; }
  const auto & pa = a.get_particles(); const auto & pb = b.get_particles();
  if (pa.size() != pb.size()) { why = "particle count " + std::to_string(pa.size()) + " vs " + std::to_string(pb.size()); return false; }
  for (size_t i = 0; i < pa.size(); i++) {
    if (pa[i].get_code() != pb[i].get_code()) { why = "species of particle " + std::to_string(i); return false; }
    double x[4] = {pa[i].get_px(), pa[i].get_py(), pa[i].get_pz(), pa[i].get_time()}, y[4] = {pb[i].get_px(), pb[i].get_py(), pb[i].get_pz(), pb[i].get_time()};
    if (memcmp(x, y, sizeof x)) { why = "momentum/time of particle " + std::to_string(i) + " (" + jnum(x[0]) + "," + jnum(x[1]) + "," + jnum(x[2]) + ") vs (" + jnum(y[0]) + "," + jnum(y[1]) + "," + jnum(y[2]) + ")"; return false; }
  }
  return true;
}


// ---- steered tapes: improbable branches matter for hidden state shared across nuclides
static const std::vector<double> & dict_for_cfg(int cfg)
{
  static std::map<int, std::vector<double>> cache; auto it = cache.find(cfg); if (it != cache.end()) return it->second;
  std::set<double> s; std::set<std::string> seen; std::vector<std::string> todo; const CfgT & c = CFGS[cfg];
  std::string rn = std::string(c.name).substr(0, std::string(c.name).find('+'));
  auto d0 = REF_DISPATCH.find(std::string(c.kind) + ":" + rn); if (d0 != REF_DISPATCH.end()) todo = d0->second;
  while (!todo.empty()) { std::string n = todo.back(); todo.pop_back(); if (!seen.insert(n).second) continue; auto d = REF_DICT.find(n); if (d != REF_DICT.end()) s.insert(d->second.begin(), d->second.end());
    auto cl = REF_CALLS.find(n); if (cl != REF_CALLS.end()) for (auto & x : cl->second) { if (x == "beta" || x == "beta1" || x == "beta2" || x == "beta_1fu" || x == "particle" || x == "pair" || x == "tgold") continue; todo.push_back(x); } }
  return cache[cfg] = std::vector<double>(s.begin(), s.end());
}
static void shot_tape(Tape & t, int cfg, uint32_t tseed)
{ t.seed = mix(0xC07, tseed); t.dict = &dict_for_cfg(cfg); int k = tseed % 3; t.prof.p_plain = k == 0 ? 1.0 : 0.6; t.prof.w_dict = k == 0 ? 0 : 2; t.prof.w_low = t.prof.w_high = k == 2 ? 0.5 : 0; }

// ---- pristine-process oracle: what a FRESH PROCESS computes for (configuration, init tape, shot tape).
// A server process is forked before any library call; for each request it forks a grandchild that runs a fresh generator in a
// process whose library state has never seen another configuration, and pipes the event back.  (An in-process "fresh instance"
// oracle would share function-local statics and caches of the library with the history under test.)
struct OracleEvent { std::vector<double> v; std::string label; size_t used = 0; bool ok = true; };
static int g_req_fd = -1, g_rsp_fd = -1; static pid_t g_server = -1; static int g_oracle_batch = 0;
static void compute_event(int cfg, uint32_t iseed, uint32_t tseed, OracleEvent & o)
{
  try {
    G f; configure(f, CFGS[cfg]); Tape it; it.seed = iseed; TapeRandom r0(it, 0, 200000); f.initialize(r0);
    bxdecay0::event e; Tape t; shot_tape(t, cfg, tseed); TapeRandom r(t, 0, 200000); f.shoot(r, e);
    o.label = e.get_generator(); o.used = r.pos; o.v.push_back(e.get_time());
    for (auto & p : e.get_particles()) { o.v.push_back((double)p.get_code()); o.v.push_back(p.get_time()); o.v.push_back(p.get_px()); o.v.push_back(p.get_py()); o.v.push_back(p.get_pz()); }
  } catch (std::exception &) { o.ok = false; }
}
static void wr(int fd, const void * p, size_t n) { const char * c = (const char *)p; while (n) { ssize_t k = write(fd, c, n); if (k <= 0) _exit(3); c += k; n -= k; } }
static bool rd(int fd, void * p, size_t n) { char * c = (char *)p; while (n) { ssize_t k = read(fd, c, n); if (k <= 0) return false; c += k; n -= k; } return true; }
static void start_oracle_server()
{
  int rq[2], rs[2]; if (pipe(rq) || pipe(rs)) throw std::runtime_error("pipe");
  g_server = fork();
  if (g_server == 0) {
    close(rq[1]); close(rs[0]);
    std::map<std::tuple<uint32_t, uint32_t, uint32_t>, std::string> memo; // raw responses (the server itself never calls the library)
    while (true) {
      uint32_t req[4]; if (!rd(rq[0], req, sizeof req)) _exit(0);   // configuration, init tape, shot tape, batch flag
      auto key = std::make_tuple(req[0], req[1], req[2]); auto hit = memo.find(key);
      if (hit != memo.end()) { wr(rs[1], hit->second.data(), hit->second.size()); continue; }
      if (req[2] < 60 && req[3]) {
        // (marathon histories use every shot tape of a few (configuration, init tape) pairs; short histories use a few tapes of many pairs)
        // one INITIALISER child per (configuration, init tape): it initialises a fresh generator once and forks one grandchild per shot tape
        // 0..59, so that every event is still the FIRST shot of a process that has done nothing but this initialisation - and the cost of
        // the initialisation (quadratures of the double-beta modes) is paid once instead of 60 times
        int bp[2]; if (pipe(bp)) _exit(4);
        pid_t ini = fork();
        if (ini == 0) {
          close(bp[0]);
          std::unique_ptr<G> f; bool ok = true;
          try { f.reset(new G); configure(*f, CFGS[(int)req[0]]); Tape it; it.seed = req[1]; TapeRandom r0(it, 0, 200000); f->initialize(r0); } catch (std::exception &) { ok = false; }
          for (uint32_t ts = 0; ts < 60; ts++) {
            int gp[2]; if (pipe(gp)) _exit(4);
            pid_t g = fork();
            if (g == 0) {
              close(gp[0]); OracleEvent o;
              if (!ok) o.ok = false;
              else try {
                bxdecay0::event e; Tape t; shot_tape(t, (int)req[0], ts); TapeRandom r(t, 0, 200000); f->shoot(r, e);
                o.label = e.get_generator(); o.used = r.pos; o.v.push_back(e.get_time());
                for (auto & p : e.get_particles()) { o.v.push_back((double)p.get_code()); o.v.push_back(p.get_time()); o.v.push_back(p.get_px()); o.v.push_back(p.get_py()); o.v.push_back(p.get_pz()); }
              } catch (std::exception &) { o.ok = false; }
              uint64_t hdr[4] = {o.ok, o.v.size(), o.label.size(), o.used}; wr(gp[1], hdr, sizeof hdr); if (!o.v.empty()) wr(gp[1], o.v.data(), o.v.size() * sizeof(double)); if (!o.label.empty()) wr(gp[1], o.label.data(), o.label.size());
              _exit(0);
            }
            close(gp[1]); std::string resp; char buf[4096]; ssize_t k; while ((k = read(gp[0], buf, sizeof buf)) > 0) resp.append(buf, k); close(gp[0]);
            int st; waitpid(g, &st, 0);
            if (!WIFEXITED(st) || WEXITSTATUS(st) != 0 || resp.size() < 32) { uint64_t hdr[4] = {2, 0, 0, 0}; resp.assign((const char *)hdr, sizeof hdr); }
            uint32_t len = (uint32_t)resp.size(); wr(bp[1], &len, sizeof len); wr(bp[1], resp.data(), resp.size());
          }
          _exit(0);
        }
        close(bp[1]);
        for (uint32_t ts = 0; ts < 60; ts++) {
          uint32_t len = 0; std::string resp;
          if (rd(bp[0], &len, sizeof len) && len >= 32 && len < (1u << 24)) { resp.resize(len); if (!rd(bp[0], &resp[0], len)) resp.clear(); }
          if (resp.empty()) { uint64_t hdr[4] = {2, 0, 0, 0}; resp.assign((const char *)hdr, sizeof hdr); }
          memo[std::make_tuple(req[0], req[1], ts)] = resp;
        }
        close(bp[0]); int st; waitpid(ini, &st, 0);
        const std::string & r0 = memo[key]; wr(rs[1], r0.data(), r0.size()); continue;
      }
      int gp[2]; if (pipe(gp)) _exit(4);
      pid_t g = fork();
      if (g == 0) {
        OracleEvent o; compute_event((int)req[0], req[1], req[2], o);
        close(gp[0]);
        uint64_t hdr[4] = {o.ok, o.v.size(), o.label.size(), o.used}; wr(gp[1], hdr, sizeof hdr); if (!o.v.empty()) wr(gp[1], o.v.data(), o.v.size() * sizeof(double)); if (!o.label.empty()) wr(gp[1], o.label.data(), o.label.size());
        _exit(0);
      }
      close(gp[1]); std::string resp; char buf[4096]; ssize_t k; while ((k = read(gp[0], buf, sizeof buf)) > 0) resp.append(buf, k); close(gp[0]);
      int st; waitpid(g, &st, 0);
      if (!WIFEXITED(st) || WEXITSTATUS(st) != 0 || resp.size() < 32) { uint64_t hdr[4] = {2, 0, 0, 0}; resp.assign((const char *)hdr, sizeof hdr); }
      memo[key] = resp; wr(rs[1], resp.data(), resp.size());
    }
  }
  close(rq[0]); close(rs[1]); g_req_fd = rq[1]; g_rsp_fd = rs[0];
}
static const OracleEvent & oracle(int cfg, uint32_t iseed, uint32_t tseed)
{
  static std::map<std::tuple<int, uint32_t, uint32_t>, OracleEvent> memo; auto key = std::make_tuple(cfg, iseed, tseed);
  auto it = memo.find(key); if (it != memo.end()) return it->second;
  uint32_t req[4] = {(uint32_t)cfg, iseed, tseed, (uint32_t)g_oracle_batch}; wr(g_req_fd, req, sizeof req);
  uint64_t hdr[4]; if (!rd(g_rsp_fd, hdr, sizeof hdr)) throw std::runtime_error("oracle server died");
  OracleEvent o; o.ok = hdr[0] == 1; o.v.resize(hdr[1]); o.label.resize(hdr[2]); o.used = hdr[3];
  if (hdr[1]) rd(g_rsp_fd, o.v.data(), hdr[1] * sizeof(double)); if (hdr[2]) rd(g_rsp_fd, &o.label[0], hdr[2]);
  if (hdr[0] == 2) throw std::runtime_error("oracle grandchild crashed");
  return memo[key] = o;
}
static bool same_as_oracle(const bxdecay0::event & e, size_t used, const OracleEvent & o, std::string & why)
{
  if (!o.ok) { why = "pristine process refuses what the history accepted"; return false; }
  if (e.get_generator() != o.label) { why = "generator label"; return false; }
  std::vector<double> v; v.push_back(e.get_time());
  for (auto & p : e.get_particles()) { v.push_back((double)p.get_code()); v.push_back(p.get_time()); v.push_back(p.get_px()); v.push_back(p.get_py()); v.push_back(p.get_pz()); }
  if (v.size() != o.v.size()) { why = "particle count " + std::to_string((v.size() - 1) / 5) + " vs " + std::to_string((o.v.size() - 1) / 5) + " in a fresh process"; return false; }
  for (size_t i = 0; i < v.size(); i++) if (memcmp(&v[i], &o.v[i], sizeof(double))) { why = (i == 0 ? std::string("event time") : "particle " + std::to_string((i - 1) / 5) + " field " + std::to_string((i - 1) % 5)) + ": " + jnum(v[i]) + " vs " + jnum(o.v[i]) + " in a fresh process"; return false; }
  if (used != o.used) { why = "deviates consumed " + std::to_string(used) + " vs " + std::to_string(o.used); return false; }
  return true;
}

struct Slot { std::unique_ptr<G> g; int cfg = -1; uint32_t iseed = 0; int shots = 0; bxdecay0::event ev; bool ev_used = false; };
struct RunInfo { bool ok = true; std::string msg, cls; int step = -1; bool nontrivial = false; std::string target; std::string shape; };

static RunInfo run_history(const std::vector<Op> & ops)
{
  int nslots = 4; for (auto & o : ops) nslots = std::max(nslots, o.slot + 1);
  RunInfo ri; std::vector<Slot> slots(nslots); std::vector<int> other_ops(nslots, 0);
  for (size_t k = 0; k < ops.size(); k++) {
    const Op & o = ops[k]; Slot & s = slots[o.slot];
    for (int j = 0; j < nslots; j++) if (j != o.slot) other_ops[j]++;
    if (o.kind == CREATE) {
      s.g.reset(new G); s.cfg = o.cfg; s.iseed = o.tseed; s.shots = 0;
      configure(*s.g, CFGS[s.cfg]); Tape it; it.seed = s.iseed; TapeRandom r(it, 0, 200000); s.g->initialize(r);
    } else if (o.kind == DESTROY) { s.g.reset(); s.cfg = -1; }
    else if (o.kind == RESET_REINIT) {
      if (!s.g) continue;
      s.g->reset(); configure(*s.g, CFGS[s.cfg]); Tape it; it.seed = s.iseed; TapeRandom r(it, 0, 200000); s.g->initialize(r);
    } else if (o.kind == RECONFIG) {
      if (!s.g) continue;
      s.g->reset(); s.cfg = o.cfg; s.iseed = o.tseed; s.shots = 0;
      configure(*s.g, CFGS[s.cfg]); Tape it; it.seed = s.iseed; TapeRandom r(it, 0, 200000); s.g->initialize(r);
    } else if (o.kind == SHOOT) {
      if (!s.g) continue;
      bxdecay0::event local; bxdecay0::event * ev = &local;
      if (o.evkind == 1) ev = &s.ev; // persistent event object of this slot, reused across shots
      if (o.evkind == 2) { // leftover of some other use of the object: particles / label / reference time in every combination (o.junk % 4)
        bxdecay0::particle p; p.set_code(bxdecay0::ALPHA); p.set_time(3.0); p.set_momentum(9, 8, 7); int v = o.junk % 4;
        if (v != 3) for (int i = 0; i < 1 + o.junk / 4; i++) local.add_particle(p);
        if (v == 0 || v == 2 || v == 3) local.set_generator("junk");
        if (v == 0 || v == 3) local.set_time(5.0); }
      if (o.evkind == 3) { ev = &s.ev; s.ev.grab_particles().shrink_to_fit(); }
      Tape t; shot_tape(t, s.cfg, o.tseed); TapeRandom r(t, 0, 200000);
      s.g->shoot(r, *ev);
      // oracle: the same (configuration, init tape, shot tape) in a pristine process, fresh generator, fresh event
      const OracleEvent & want = oracle(s.cfg, s.iseed, o.tseed);
      std::string why;
      bool nt = s.shots >= 1 && other_ops[o.slot] >= 1 && o.evkind != 0;
      if (nt) { ri.nontrivial = true; ri.target = std::string(CFGS[s.cfg].name) + ":" + std::to_string(CFGS[s.cfg].level) + ":" + std::to_string(CFGS[s.cfg].mode) + (CFGS[s.cfg].mdl ? "+mdl" : ""); ri.shape = std::string(EVK[o.evkind]) + "/" + std::to_string(std::min(s.shots, 3)) + "/" + std::to_string(std::min(other_ops[o.slot], 3)); }
      if (!same_as_oracle(*ev, r.pos, want, why)) {
        ri.ok = false; ri.step = (int)k; ri.cls = std::string("history-dependent:") + CFGS[s.cfg].name + (CFGS[s.cfg].mdl ? "+mdl" : "");
        ri.msg = "event of " + op_str(o) + " differs from what a fresh process produces for the same configuration and deviates: " + why;
        return ri;
      }
      s.shots++; other_ops[o.slot] = 0; s.ev_used = true;
    }
  }
  return ri;
}

// Each generated history runs in its own forked child: the history under test is then everything the process has done with the
// library since its start, failures do not depend on earlier test cases, and the shrunk sequence replays in a fresh process.
static RunInfo run_history_forked(const std::vector<Op> & ops)
{
  int p[2]; if (pipe(p)) throw std::runtime_error("pipe");
  pid_t c = fork();
  if (c == 0) {
    close(p[0]); RunInfo ri;
    try { ri = run_history(ops); } catch (std::exception & e) { ri.ok = false; ri.cls = "exception"; ri.msg = e.what(); }
    std::string out = std::string(ri.ok ? "1" : "0") + (ri.nontrivial ? "1" : "0") + "\n" + ri.cls + "\n" + ri.target + "\n" + ri.shape + "\n" + ri.msg;
    wr(p[1], out.data(), out.size()); _exit(0);
  }
  close(p[1]); std::string in; char buf[4096]; ssize_t k; while ((k = read(p[0], buf, sizeof buf)) > 0) in.append(buf, k); close(p[0]);
  int st; waitpid(c, &st, 0);
  RunInfo ri;
  if (!WIFEXITED(st) || WEXITSTATUS(st) != 0 || in.size() < 3) { ri.ok = false; ri.cls = "crash"; ri.msg = "the history crashed the process (status " + std::to_string(st) + ")"; return ri; }
  ri.ok = in[0] == '1'; ri.nontrivial = in[1] == '1';
  std::vector<std::string> f; size_t pos = 3; for (int i = 0; i < 3; i++) { size_t e = in.find('\n', pos); f.push_back(in.substr(pos, e - pos)); pos = e + 1; }
  ri.cls = f[0]; ri.target = f[1]; ri.shape = f[2]; ri.msg = in.substr(pos);
  return ri;
}

// ---- deep single-instance histories: state that BUILDS UP inside one instance over thousands of shots (a cache filled shot by shot, keyed by a
// sampled value) never shows within ~100 operations or with 60 recurring tapes.  One instance shoots `warm` distinct tapes, then every further
// tape is shot twice: by the warmed instance and by its COLD TWIN - a process forked right after initialize() that has never shot - and the two
// events must be bit-identical, deviate count included.  Runs in its own forked child; `only` >= 0 compares just that tape (replay / minimisation).
struct DeepRes { bool ok = true; long tape = -1; std::string msg; long compared = 0; };
static void ev_flat(const bxdecay0::event & e, size_t used, std::vector<double> & v)
{ v.clear(); v.push_back((double)used); v.push_back(e.get_time()); for (auto & p : e.get_particles()) { v.push_back((double)p.get_code()); v.push_back(p.get_time()); v.push_back(p.get_px()); v.push_back(p.get_py()); v.push_back(p.get_pz()); } }
static DeepRes deep_history_forked(int cfg, uint32_t iseed, long warm, long ncmp, long only)
{
  int p[2]; if (pipe(p)) throw std::runtime_error("pipe");
  pid_t c = fork();
  if (c == 0) {
    close(p[0]); DeepRes dr; std::string out;
    try {
      G a; configure(a, CFGS[cfg]); Tape it; it.seed = iseed; TapeRandom r0(it, 0, 200000); a.initialize(r0);
      int rq[2], rs[2]; if (pipe(rq) || pipe(rs)) _exit(5);
      pid_t twin = fork();
      if (twin == 0) { // cold twin: serves "shoot tape T" requests, each in a grandchild so that the twin itself never shoots
        close(rq[1]); close(rs[0]); uint32_t ts;
        while (rd(rq[0], &ts, sizeof ts)) {
          int gp[2]; if (pipe(gp)) _exit(5);
          pid_t g = fork();
          if (g == 0) { close(gp[0]); std::vector<double> v; try { bxdecay0::event e; Tape t; shot_tape(t, cfg, ts); TapeRandom r(t, 0, 200000); a.shoot(r, e); ev_flat(e, r.pos, v); } catch (std::exception &) { v.assign(1, -1.0); }
            uint32_t n = (uint32_t)v.size(); wr(gp[1], &n, sizeof n); wr(gp[1], v.data(), n * sizeof(double)); _exit(0); }
          close(gp[1]); uint32_t n = 0; std::vector<double> v; if (rd(gp[0], &n, sizeof n) && n < 100000) { v.resize(n); if (n) rd(gp[0], v.data(), n * sizeof(double)); } close(gp[0]); int st; waitpid(g, &st, 0);
          wr(rs[1], &n, sizeof n); if (n) wr(rs[1], v.data(), n * sizeof(double));
        }
        _exit(0);
      }
      close(rq[0]); close(rs[1]);
      bxdecay0::event reused;
      for (long i = 0; i < warm; i++) { Tape t; shot_tape(t, cfg, (uint32_t)(1000 + i)); TapeRandom r(t, 0, 200000); if (i % 2) { bxdecay0::event e; a.shoot(r, e); } else a.shoot(r, reused); }
      for (long j = 0; j < ncmp && dr.ok; j++) {
        uint32_t ts = (uint32_t)(only >= 0 ? only : 1000000 + j);
        wr(rq[1], &ts, sizeof ts); uint32_t n = 0; std::vector<double> want; if (!rd(rs[0], &n, sizeof n)) throw std::runtime_error("cold twin died"); want.resize(n); if (n) rd(rs[0], want.data(), n * sizeof(double));
        bxdecay0::event e; Tape t; shot_tape(t, cfg, ts); TapeRandom r(t, 0, 200000); std::vector<double> got;
        try { a.shoot(r, e); ev_flat(e, r.pos, got); } catch (std::exception &) { got.assign(1, -1.0); }
        dr.compared++;
        if (got.size() != want.size() || (got.size() && memcmp(got.data(), want.data(), got.size() * sizeof(double)))) {
          dr.ok = false; dr.tape = ts;
          dr.msg = "after " + std::to_string(warm + j) + " earlier shots of the same instance, the event for tape " + std::to_string(ts) + " differs from what the instance's cold twin (forked right after initialize(), never shot) produces for the same tape: "
                 + std::to_string(got.size() > 2 ? (got.size() - 2) / 5 : 0) + " particles / " + std::to_string(got.empty() ? 0 : (long)got[0]) + " deviates vs " + std::to_string(want.size() > 2 ? (want.size() - 2) / 5 : 0) + " particles / " + std::to_string(want.empty() ? 0 : (long)want[0]) + " deviates";
          for (size_t i = 2; i < std::min(got.size(), want.size()); i++) if (memcmp(&got[i], &want[i], sizeof(double))) { dr.msg += "; first difference: particle " + std::to_string((i - 2) / 5) + " field " + std::to_string((i - 2) % 5) + " " + jnum(got[i]) + " vs " + jnum(want[i]); break; }
        }
        if (only >= 0) break;
      }
      close(rq[1]); int st; waitpid(twin, &st, 0);
    } catch (std::exception & e) { dr.ok = false; dr.tape = -2; dr.msg = std::string("exception: ") + e.what(); }
    out = std::string(dr.ok ? "1" : "0") + "\n" + std::to_string(dr.tape) + "\n" + std::to_string(dr.compared) + "\n" + dr.msg;
    wr(p[1], out.data(), out.size()); _exit(0);
  }
  close(p[1]); std::string in; char buf[4096]; ssize_t k; while ((k = read(p[0], buf, sizeof buf)) > 0) in.append(buf, k); close(p[0]);
  int st; waitpid(c, &st, 0);
  DeepRes dr;
  if (!WIFEXITED(st) || WEXITSTATUS(st) != 0 || in.size() < 5) { dr.ok = false; dr.tape = -3; dr.msg = "the deep history crashed the process (status " + std::to_string(st) + ")"; return dr; }
  size_t a1 = in.find('\n'), a2 = in.find('\n', a1 + 1), a3 = in.find('\n', a2 + 1);
  dr.ok = in[0] == '1'; dr.tape = atol(in.substr(a1 + 1, a2 - a1 - 1).c_str()); dr.compared = atol(in.substr(a2 + 1, a3 - a2 - 1).c_str()); dr.msg = in.substr(a3 + 1);
  return dr;
}

struct Ctx { Report rep; Known known; std::string replaydir; };

static void record(Ctx & cx, const std::vector<Op> & ops, const RunInfo & ri)
{
  std::string sig = "C07|" + ri.cls;
  std::string kid = cx.known.match("C07", sig);
  if (!kid.empty()) { cx.rep.known[kid]++; return; }
  std::string path = cx.replaydir + "/C07-" + hash_name(sig + ops_json(ops)) + ".json";
  std::ofstream(path) << "{\"property\":\"C07\",\"ops\":" << ops_json(ops) << ",\"history\":" << jstr(ops_str(ops)) << ",\"sig\":" << jstr(sig) << ",\"msg\":" << jstr(ri.msg) << "}\n";
  cx.rep.failures.push_back({sig, ri.msg, path});
}

int main(int argc, char ** argv)
{
  Args a(argc, argv);
  Ctx cx; cx.rep.prop = "C07"; cx.replaydir = a.s("replaydir", "replay");
  if (a.has("known")) cx.known.load(a.s("known"));
  int out_fd = dup(1); silence_stdio(true, false);
  static std::ofstream devnull("/dev/null");
  if (!a.has("verbose")) { std::cerr.rdbuf(devnull.rdbuf()); std::clog.rdbuf(devnull.rdbuf()); }
  FILE * res = fdopen(out_fd, "w");
  int shard = a.i("shard", 0); long long cases = a.i("cases", 150); uint64_t seed = a.i("seed", 1);
  cfgs(); start_oracle_server();
  if (a.has("replay")) {
    JV j = jload(a.s("replay")); std::vector<Op> ops;
    if (j.has("deep")) {
      const JV & d = j.at("deep"); DeepRes dr = deep_history_forked((int)d.n("cfg", 0), (uint32_t)d.n("iseed", 0), (long)d.n("warm", 0), 1, (long)d.n("tape", 0));
      dprintf(out_fd, dr.ok ? "REPLAY-PASS\n" : "REPLAY-FAIL class=deep-history %s\n", dr.msg.c_str()); return dr.ok ? 0 : 1;
    }
    for (auto & e : j.at("ops").arr) ops.push_back({(int)e.arr[0].num, (int)e.arr[1].num, (int)e.arr[2].num, (int)e.arr[3].num, (int)e.arr[4].num, (uint32_t)e.arr[5].num});
    RunInfo ri = run_history(ops);
    dprintf(out_fd, ri.ok ? "REPLAY-PASS\n" : "REPLAY-FAIL class=%s %s\n", ri.cls.c_str(), ri.msg.c_str()); return ri.ok ? 0 : 1;
  }
  try {
    std::string params = "seed=" + std::to_string(seed * 16 + shard + 1) + " max_success=" + std::to_string(cases) + " max_size=100";
    setenv("RC_PARAMS", params.c_str(), 1);
    std::vector<Op> failing; RunInfo fri;
    auto genOp = rc::gen::apply([](int kind, int slot, int cfg, int evkind, int junk, uint32_t ts) {
      // shots are the majority of operations
      Op o; o.kind = kind < 5 ? SHOOT : (kind < 8 ? CREATE : (kind == 8 ? RESET_REINIT : (kind == 9 ? DESTROY : RECONFIG))); o.slot = slot; o.cfg = cfg; o.evkind = evkind; o.junk = junk; o.tseed = ts % 60; return o; },
      rc::gen::resize(100, rc::gen::inRange(0, 12)), rc::gen::resize(100, rc::gen::inRange(0, 4)), rc::gen::resize(100, rc::gen::inRange(0, NCFG)),
      rc::gen::resize(100, rc::gen::inRange(0, 4)), rc::gen::resize(100, rc::gen::inRange(0, 40)), rc::gen::arbitrary<uint32_t>());
    bool okrc = rc::check("events do not depend on history", [&]() {
      auto body = *rc::gen::container<std::vector<Op>>(genOp);
      // every history starts by populating two slots so that shots are not wasted on empty slots
      int c0 = *rc::gen::resize(100, rc::gen::inRange(0, NCFG)), c1 = *rc::gen::resize(100, rc::gen::inRange(0, NCFG));
      std::vector<Op> ops = {{CREATE, 0, c0, 0, 0, 11}, {CREATE, 1, c1, 0, 0, 12}};
      ops.insert(ops.end(), body.begin(), body.end());
      RunInfo ri = run_history_forked(ops);
      cx.rep.evaluations++;
      if (ri.nontrivial && ri.ok) { cx.rep.nt(ri.target + "|" + ri.shape); cx.rep.label("target:" + ri.target); cx.rep.label("shape:" + ri.shape); }
      if (cx.rep.samples.size() < 4 && ri.nontrivial && ri.ok && ops.size() > 6 && ops.size() < 14) cx.rep.sample("{\"history\":" + jstr(ops_str(ops)) + "}");
      if (!ri.ok) { failing = ops; fri = ri; }
      RC_ASSERT(ri.ok);
    });
    if (!okrc && !failing.empty()) record(cx, failing, fri);
    // ---- marathon: ONE long history per shard (thousands of operations over every configuration), in one forked child.
    // Hidden state shared across nuclides (a cache keyed too coarsely, a static buffer) needs a particular pair of operations to
    // follow each other; a long history contains very many such pairs.  On failure the operation log is minimised by delta
    // debugging, each candidate in its own fresh child, so the saved history replays in a fresh process.
    long marathon = a.i("marathon", 3000);
    if (marathon > 0 && cx.rep.failures.empty()) {
      g_oracle_batch = 1;
      Rng r(mix(mix(seed, 0xC0707), shard)); std::vector<Op> ops;
      // one generator per configuration (slot = configuration index), then shots hopping between them: every shot follows a shot of
      // another nuclide; now and then an instance is reset + re-initialised or re-created
      for (int sl = 0; sl < NCFG; sl++) ops.push_back({CREATE, sl, sl, 0, 0, (uint32_t)r.range(0, 1)});
      for (long k = 0; k < marathon; k++) {
        int kind = r.range(0, 39); Op o; o.slot = r.range(0, NCFG - 1); o.cfg = o.slot; o.kind = kind < 38 ? SHOOT : (kind == 38 ? CREATE : RESET_REINIT); o.evkind = r.range(0, 3); o.junk = r.range(0, 20); o.tseed = (uint32_t)r.range(0, 59);
        if (o.kind == CREATE) o.tseed = (uint32_t)r.range(0, 1);
        ops.push_back(o);
      }
      RunInfo ri = run_history_forked(ops); cx.rep.evaluations++; cx.rep.counters["marathon_operations"] += ops.size();
      if (ri.ok) { cx.rep.nt("marathon|" + std::to_string(shard)); cx.rep.label("marathon-history"); }
      else {
        // ddmin on the log, keeping the same failure class
        std::vector<Op> cur = ops; size_t chunk = cur.size() / 2; int budget = 400;
        while (chunk >= 1 && budget > 0) {
          bool removed = false;
          for (size_t st = 0; st + chunk <= cur.size() && budget > 0;) {
            std::vector<Op> cand(cur.begin(), cur.begin() + st); cand.insert(cand.end(), cur.begin() + st + chunk, cur.end());
            RunInfo r2 = run_history_forked(cand); budget--;
            if (!r2.ok && r2.cls == ri.cls) { cur = cand; ri = r2; removed = true; } else st += chunk;
          }
          if (!removed || chunk == 1) { if (chunk == 1) break; chunk /= 2; } else if (chunk > cur.size() / 2) chunk = std::max<size_t>(1, cur.size() / 2);
        }
        record(cx, cur, ri);
      }
    }
    // ---- deep single-instance histories (see deep_history_forked): the configurations whose sampling keeps per-instance working data
    // (all double-beta entries of the pool) plus a few background nuclides, dealt out over the shards
    long dwarm = a.i("deepwarm", 6000), dcmp = a.i("deepcmp", 3000);
    if (dcmp > 0 && cx.rep.failures.empty()) {
      std::vector<int> deep; for (int i = 0; i < NCFG; i++) { const CfgT & c = CFGS[i]; if (c.mdl) continue; if (std::string(c.kind) == "dbd" || i < 8) deep.push_back(i); }
      int nsh = a.i("nshards", 1);
      for (size_t di = 0; di < deep.size(); di++) {
        if ((int)(di % nsh) != shard) continue;
        int cfg = deep[di]; uint32_t iseed = (uint32_t)(mix(seed, 77 + di) % 1000);
        DeepRes dr = deep_history_forked(cfg, iseed, dwarm, dcmp, -1);
        cx.rep.evaluations += dr.compared; cx.rep.counters["deep_history_compared_shots"] += dr.compared; cx.rep.counters["deep_history_warmup_shots"] += dwarm;
        std::string tgt = std::string(CFGS[cfg].name) + ":" + std::to_string(CFGS[cfg].level) + ":" + std::to_string(CFGS[cfg].mode);
        if (dr.ok) { cx.rep.nt("deep|" + tgt); cx.rep.label("deep-history:" + tgt); continue; }
        if (dr.tape < 0) { std::string sig = "C07|deep-history-crash:" + tgt; std::string path = cx.replaydir + "/C07-" + hash_name(sig) + ".json"; std::ofstream(path) << "{\"property\":\"C07\",\"deep\":{\"cfg\":" << cfg << ",\"iseed\":" << iseed << ",\"warm\":" << dwarm << ",\"tape\":1000000},\"sig\":" << jstr(sig) << ",\"msg\":" << jstr(dr.msg) << "}\n"; cx.rep.failures.push_back({sig, dr.msg, path}); continue; }
        // minimise the warm-up: the smallest of warm/2^k for which the same tape still differs (each candidate in a fresh child), confirmed 3x
        long w = dwarm + (dr.tape - 1000000); long best = w; DeepRes bres = deep_history_forked(cfg, iseed, w, 1, dr.tape);
        if (bres.ok) { cx.rep.count("deep_failure_not_reproduced_alone"); bres = dr; best = -1; }
        else for (long cand = w / 2; cand >= 1; cand /= 2) { DeepRes r2 = deep_history_forked(cfg, iseed, cand, 1, dr.tape); if (!r2.ok && r2.tape == dr.tape) { best = cand; bres = r2; } else break; }
        int again = 0; if (best >= 0) for (int k = 0; k < 3; k++) { DeepRes r3 = deep_history_forked(cfg, iseed, best, 1, dr.tape); if (!r3.ok) again++; }
        if (best >= 0 && again < 3) { cx.rep.count("unstable_deep_failure_dropped"); continue; }
        std::string sig = "C07|history-dependent-deep:" + tgt; std::string kid = cx.known.match("C07", sig); if (!kid.empty()) { cx.rep.known[kid]++; continue; }
        std::string path = cx.replaydir + "/C07-" + hash_name(sig + std::to_string(dr.tape)) + ".json";
        std::ofstream(path) << "{\"property\":\"C07\",\"deep\":{\"cfg\":" << cfg << ",\"iseed\":" << iseed << ",\"warm\":" << (best >= 0 ? best : w) << ",\"tape\":" << dr.tape << "},\"config\":" << jstr(tgt) << ",\"sig\":" << jstr(sig) << ",\"msg\":" << jstr(bres.msg) << "}\n";
        cx.rep.failures.push_back({sig, bres.msg, path});
      }
    }
  } catch (std::exception & e) { fprintf(res, "HARNESS-ERROR %s\n", e.what()); fflush(res); return 2; }
  cx.rep.write(a.s("out", "report.json"));
  fprintf(res, "done evaluations=%llu failures=%zu\n", (unsigned long long)cx.rep.evaluations, cx.rep.failures.size()); fflush(res);
  return 0;
}
