// threads.cc -- C12: independent generators on different threads do not interfere.
//
// The harness owns the schedule: the guarded schedule points in decay0_gauss (before save/disable, before integrate,
// before restore, after restore of the GSL error handler) call a cooperative scheduler that lets exactly one thread run
// between two points, in the order given by a generated schedule.  Execution is therefore serialised and deterministic.
//
//  mode kernel : T threads x C decay0_gauss calls on integrands that do / do not reach tolerance;
//                ALL interleavings for (T,C)=(2,1) [70] and, in the thorough tier, (2,2) [12870]; random ones for (3,1),(3,2)
//  mode gen    : 2..4 decay0_generator instances initialised and shot on threads under random schedules
//  mode free   : the same generator workloads free-running after a start barrier (meant for the TSan build)
//  mode lockstep: 2-3 generators on threads, strictly serialised, control handed over at the deviate requests (the harness owns the
//                deviate source, so no hook is needed): every published nuclide, pairs chosen so that nuclides sharing a helper routine meet
//
// Oracle: a RECORDING handler h0 stands in for GSL's aborting default: h0 invoked => the process would have aborted;
// the handler after all threads joined must be h0; per-thread results bit-identical to a sequential run.
#include <atomic>
#include <cmath>
#include <chrono>
#include <condition_variable>
#include <iostream>
#include <mutex>
#include <thread>
#include <unistd.h>
#include <gsl/gsl_errno.h>

#include <bxdecay0/decay0_generator.h>
#include <bxdecay0/dbd_gA.h>
#include <bxdecay0/gauss.h>
#include "../engine/vf.hpp"
#include "refdict.inc"
#include "catalog.hpp"

namespace bxdecay0 { namespace verif { extern void (*gauss_schedule_point)(int); } }
using namespace vf;
typedef bxdecay0::decay0_generator G;

// ---------------------------------------------------------------- recording GSL handler
static std::atomic<long> g_h0_calls{0};
static void h0(const char *, const char *, int, int) { g_h0_calls++; }

// ---------------------------------------------------------------- cooperative scheduler
struct Sched
{
  std::mutex m; std::condition_variable cv;
  int turn = -1;                 // thread allowed to run (-1: nobody)
  std::vector<int> state;        // 0 not started, 1 parked at a point, 2 running, 3 finished
  std::vector<char> away;        // granted but did not come back within the patience window (blocked inside the library or long-running)
  bool active = false;
  void reset(int n) { std::lock_guard<std::mutex> l(m); state.assign(n, 0); away.assign(n, 0); turn = -1; active = true; }
  void release_all() { std::lock_guard<std::mutex> l(m); active = false; cv.notify_all(); } // let every thread run freely from now on
} S;
static thread_local int t_id = -1;

static void park()
{ // called by a worker at every schedule point (and at start): give control back and wait for the next grant
  if (!S.active || t_id < 0) return;
  std::unique_lock<std::mutex> l(S.m);
  if (!S.active) return;
  S.state[t_id] = 1; S.away[t_id] = 0; if (S.turn == t_id || S.turn == -2) S.turn = -1; S.cv.notify_all();
  S.cv.wait(l, [&] { return S.turn == t_id || !S.active; });
  if (S.turn == t_id) S.turn = -2; // consumed
  S.state[t_id] = 2;
}
static void sched_point(int) { park(); }
static void finish()
{ std::unique_lock<std::mutex> l(S.m); S.state[t_id] = 3; if (S.turn == t_id || S.turn == -2) S.turn = -1; S.cv.notify_all(); }

// grants one step to thread tid; returns false if that thread has already finished.
// A thread that does not come back to a schedule point within the patience window is taken to be blocked inside the
// library (e.g. on a lock that serialises the quadrature): the schedule then simply continues with the other threads.
static int g_patience_ms = 5;
static bool grant(int tid)
{
  std::unique_lock<std::mutex> l(S.m);
  if (S.away[tid] && S.state[tid] == 2) return true; // known to be blocked/long-running: do not wait for it again
  if (!S.cv.wait_for(l, std::chrono::milliseconds(g_patience_ms), [&] { return (S.turn == -1) && S.state[tid] != 0 && S.state[tid] != 2; })) return true;
  if (S.state[tid] == 3) return false;
  S.turn = tid; S.cv.notify_all();
  // wait until the thread parks again or finishes (park()/finish() put turn back to -1)
  if (!S.cv.wait_for(l, std::chrono::milliseconds(g_patience_ms), [&] { return S.turn == -1; })) { S.away[tid] = 1; S.turn = -1; }
  return true;
}
static bool all_finished() { std::lock_guard<std::mutex> l(S.m); for (int s : S.state) if (s != 3) return false; return true; }

// ---------------------------------------------------------------- kernel-level workload
struct KPar { int kind; };
static double kfun(double x, void * p)
{
  int k = ((KPar *)p)->kind;
  if (k == 0) return 1.0 + x * x;                      // reaches any tolerance
  if (k == 1) return 1.0 / std::sqrt(std::fabs(x) + 1e-14); // integrable singularity at 0: QNG misses tolerance (GSL_ETOL)
  return std::exp(-x) * (x > 0.4999 ? 1.0 : 0.0) + 1.0;   // step: misses tolerance
}
struct KCall { int kind; double a, b, eps; };
static double kcall(const KCall & c) { KPar p{c.kind}; return bxdecay0::decay0_gauss(kfun, c.a, c.b, c.eps, &p); }

struct KResult { bool ok = true; std::string cls, msg; bool overlapped = false, had_etol = false; };

static KResult run_kernel(int T, const std::vector<std::vector<KCall>> & work, const std::vector<int> & schedule)
{
  KResult r;
  // sequential reference (handler h0 installed; each call alone must not invoke it)
  gsl_set_error_handler(&h0); g_h0_calls = 0;
  std::vector<std::vector<double>> seq(T), con(T);
  bxdecay0::verif::gauss_schedule_point = nullptr;
  for (int t = 0; t < T; t++) for (auto & c : work[t]) seq[t].push_back(kcall(c));
  if (g_h0_calls != 0) { r.ok = false; r.cls = "sequential-h0"; r.msg = "the recording handler fires even in a single-threaded run"; return r; }
  for (int t = 0; t < T; t++) for (auto & c : work[t]) if (c.kind != 0) r.had_etol = true;
  // scheduled run
  S.reset(T); bxdecay0::verif::gauss_schedule_point = &sched_point;
  std::vector<std::thread> th;
  for (int t = 0; t < T; t++) th.emplace_back([&, t] { t_id = t; park(); for (auto & c : work[t]) con[t].push_back(kcall(c)); finish(); });
  // overlap detection from the schedule itself: thread u gets a step while thread v is between its points 1 and 3
  std::vector<int> pos(T, 0); // number of steps granted so far; within a call: step 1 -> reached point 0, ... step 4 -> reached point 3
  for (int tid : schedule) {
    if (!grant(tid)) continue;
    pos[tid]++;
    for (int v = 0; v < T; v++) if (v != tid) { int ph = pos[v] % 4; int pt = pos[tid] % 4; if ((ph == 2 || ph == 3) && (pt == 2 || pt == 3)) r.overlapped = true; }
  }
  // drain: let everybody finish freely
  S.release_all();
  for (auto & x : th) x.join();
  bxdecay0::verif::gauss_schedule_point = nullptr; S.active = false;
  long fired = g_h0_calls.load();
  gsl_error_handler_t * after = gsl_set_error_handler(&h0);
  if (fired != 0) { r.ok = false; r.cls = "default-handler-invoked"; r.msg = "under this schedule a quadrature that misses its tolerance runs with the process-wide default GSL error handler installed (" + std::to_string(fired) + " invocations): with GSL's real default the process aborts"; return r; }
  if (after != &h0) { r.ok = false; r.cls = "handler-not-restored"; r.msg = "after all threads joined the GSL error handler is not the one installed before (left switched off: later GSL errors are silently ignored)"; return r; }
  for (int t = 0; t < T; t++) for (size_t k = 0; k < seq[t].size(); k++) if (memcmp(&seq[t][k], &con[t][k], sizeof(double))) { r.ok = false; r.cls = "result-differs"; r.msg = "thread " + std::to_string(t) + " call " + std::to_string(k) + " returns " + jnum(con[t][k]) + " concurrently, " + jnum(seq[t][k]) + " alone"; return r; }
  return r;
}

static std::string sched_json(const std::vector<int> & s) { std::string o = "["; for (size_t i = 0; i < s.size(); i++) { if (i) o += ","; o += std::to_string(s[i]); } return o + "]"; }
static std::string work_json(const std::vector<std::vector<KCall>> & w)
{ std::string o = "["; for (size_t t = 0; t < w.size(); t++) { if (t) o += ","; o += "["; for (size_t k = 0; k < w[t].size(); k++) { if (k) o += ","; o += "[" + std::to_string(w[t][k].kind) + "," + jnum(w[t][k].a) + "," + jnum(w[t][k].b) + "," + jnum(w[t][k].eps) + "]"; } o += "]"; } return o + "]"; }

// all interleavings of T sequences of length L (multiset permutations)
static void enum_interleavings(std::vector<int> & left, std::vector<int> & cur, const std::function<void(const std::vector<int> &)> & f)
{
  bool any = false;
  for (size_t t = 0; t < left.size(); t++) if (left[t] > 0) { any = true; left[t]--; cur.push_back((int)t); enum_interleavings(left, cur, f); cur.pop_back(); left[t]++; }
  if (!any) f(cur);
}

// ---------------------------------------------------------------- generator-level workload
struct GCfg { const char * kind; const char * name; int level, mode; };
static const GCfg GCFGS[] = {{"dbd", "Mo100", 0, 5}, {"dbd", "Cd116", 1, 8}, {"dbd", "Xe136", 1, 16}, {"dbd", "Se82", 0, 5}, {"dbd", "Mo100", 0, 4}, {"bkg", "Co60", 0, 0}, {"dbd", "Nd150", 0, 13}, {"bkg", "Bi214+Po214", 0, 0}};
static const int NGC = sizeof(GCFGS) / sizeof(GCFGS[0]);
static void gconf(G & g, const GCfg & c)
{
  if (std::string(c.kind) == "bkg") { g.set_decay_category(G::DECAY_CATEGORY_BACKGROUND); g.set_decay_isotope(c.name); }
  else { g.set_decay_category(G::DECAY_CATEGORY_DBD); g.set_decay_isotope(c.name); g.set_decay_dbd_level(c.level); g.set_decay_dbd_mode((bxdecay0::dbd_mode_type)c.mode); }
}
static std::string gwork(int cfg, uint64_t seed, int shots)
{ // initialise + shoot; returns a digest of the events
  G g; gconf(g, GCFGS[cfg]); Tape it; it.seed = seed; TapeRandom ri(it, 0, 1000000); g.initialize(ri);
  std::string d; bxdecay0::event ev;
  for (int k = 0; k < shots; k++) { Tape t; t.seed = mix(seed, k + 1); TapeRandom r(t, 0, 1000000); g.shoot(r, ev); for (auto & p : ev.get_particles()) { double x[4] = {p.get_px(), p.get_py(), p.get_pz(), p.get_time()}; d.append((const char *)x, sizeof x); d.push_back((char)p.get_code()); } }
  return d;
}


// ---------------------------------------------------------------- lock-step workload: hand-over at deviate requests
// Exactly one thread runs at any time; a thread gives the turn away when it asks for a deviate (every q-th request) and continues when the turn
// comes back.  Any state shared between instances that is read after a deviate was drawn and written by the other instance in between
// (a function-level static envelope, a cache, a scratch buffer) changes the events deterministically.
struct LockStep
{
  std::mutex m; std::condition_variable cv; int turn = 0; std::vector<char> done; bool on = false;
  void start(int n) { std::lock_guard<std::mutex> l(m); done.assign(n, 0); turn = 0; on = true; }
  int next_live(int t) { int n = (int)done.size(); for (int k = 1; k <= n; k++) { int u = (t + k) % n; if (!done[u]) return u; } return -1; }
  void wait_turn(int t) { std::unique_lock<std::mutex> l(m); cv.wait(l, [&] { return turn == t || !on; }); }
  void yield(int t) { std::unique_lock<std::mutex> l(m); int u = next_live(t); if (u >= 0 && u != t) { turn = u; cv.notify_all(); cv.wait(l, [&] { return turn == t || !on; }); } }
  void finish(int t) { std::lock_guard<std::mutex> l(m); done[t] = 1; int u = next_live(t); if (u >= 0) turn = u; else on = false; cv.notify_all(); }
} LS;
struct StepRandom : public bxdecay0::i_random
{
  TapeRandom inner; int t, q, left; bool stepping;
  StepRandom(Tape & tp, int t_, int q_, bool stepping_) : inner(tp, 0, 1000000), t(t_), q(q_), left(q_), stepping(stepping_) {}
  double operator()() override { if (stepping && --left <= 0) { left = q; LS.yield(t); } return inner(); }
};
struct LCfg { std::string kind, name; int level, mode; double emin, emax; };
static std::vector<LCfg> & lpool()
{
  static std::vector<LCfg> v;
  if (v.empty()) {
    for (auto & n : catalog::background_published()) v.push_back({"bkg", n, 0, 0, 0, 0});
    static const LCfg dbd[] = {{"dbd", "Mo100", 0, 1, 0, 0}, {"dbd", "Mo100", 0, 4, 0, 0}, {"dbd", "Se82", 0, 4, 0.8, 2.2}, {"dbd", "Mo100", 1, 7, 0, 0}, {"dbd", "Nd150", 3, 3, 0, 0}, {"dbd", "Ge76", 3, 3, 0, 0},
      {"dbd", "Xe136", 0, 5, 0, 0}, {"dbd", "Cd116", 0, 6, 0, 0}, {"dbd", "Te130", 1, 8, 0, 0}, {"dbd", "Cd106", 1, 9, 0, 0}, {"dbd", "Ru96", 0, 10, 0, 0}, {"dbd", "Ce136", 0, 11, 0, 0}, {"dbd", "Ru96", 0, 12, 0, 0},
      {"dbd", "Nd150", 0, 13, 0, 0}, {"dbd", "Ca48", 0, 14, 0, 0}, {"dbd", "Zr96", 0, 15, 0, 0}, {"dbd", "Xe136", 1, 16, 0.2, 1.0}, {"dbd", "Mo100", 0, 18, 0, 0}, {"dbd", "Se82", 0, 19, 0, 0}, {"dbd", "Nd150", 0, 20, 0, 0},
      {"dbd", "Bi214", 0, 1, 0, 0}, {"dbd", "Rn222", 0, 4, 0, 0}, {"dbd", "Sn112", 4, 11, 0, 0}, {"dbd", "Cd116", 0, 4, 0.5, 1.5}};
    for (auto & c : dbd) v.push_back(c);
    // the tabulated-spectra (gA) modes, when the harness provides data sets for them (BXDECAY0_DBD_GA_DATA_DIR): their loaders run at initialisation
    if (getenv("BXDECAY0_DBD_GA_DATA_DIR")) { static const LCfg ga[] = {{"dbd", "Se82", 0, 21, 0, 0}, {"dbd", "Mo100", 0, 22, 0, 0}, {"dbd", "Cd116", 0, 23, 0, 0}, {"dbd", "Nd150", 0, 24, 0, 0}}; for (auto & c : ga) v.push_back(c); }
  }
  return v;
}
static std::string lwork(const LCfg & c, uint64_t seed, int shots, int t, int q, bool stepping)
{
  G g;
  if (c.kind == "bkg") { g.set_decay_category(G::DECAY_CATEGORY_BACKGROUND); g.set_decay_isotope(c.name); }
  else { g.set_decay_category(G::DECAY_CATEGORY_DBD); g.set_decay_isotope(c.name); g.set_decay_dbd_level(c.level); g.set_decay_dbd_mode((bxdecay0::dbd_mode_type)c.mode); if (c.emax > 0) g.set_decay_dbd_esum_range(c.emin, c.emax); }
  Tape it; it.seed = seed; StepRandom ri(it, t, q, stepping); g.initialize(ri);
  std::string d; bxdecay0::event ev;
  if (c.kind == "dbd") { double ta = g.get_to_all_events(); d.append((const char *)&ta, sizeof ta); } // what initialisation computed is part of what the instance produces
  for (int k = 0; k < shots; k++) { Tape tp; tp.seed = mix(seed, k + 1); StepRandom r(tp, t, q, stepping); g.shoot(r, ev); for (auto & p : ev.get_particles()) { double x[4] = {p.get_px(), p.get_py(), p.get_pz(), p.get_time()}; d.append((const char *)x, sizeof x); d.push_back((char)p.get_code()); } }
  return d;
}
// helper routines (reference call graph) reachable from a pool entry: nuclides that share one are the pairs most likely to share hidden state
static std::set<std::string> helpers_of(const LCfg & c)
{
  std::set<std::string> seen; std::vector<std::string> todo; std::string rn = c.name.substr(0, c.name.find('+'));
  auto d0 = REF_DISPATCH.find(c.kind + ":" + rn); if (d0 != REF_DISPATCH.end()) todo = d0->second;
  if (c.kind == "dbd") { todo.push_back("bb"); todo.push_back("mode" + std::to_string(c.mode)); }
  while (!todo.empty()) { std::string n = todo.back(); todo.pop_back(); if (!seen.insert(n).second) continue; auto cl = REF_CALLS.find(n); if (cl != REF_CALLS.end()) for (auto & x : cl->second) todo.push_back(x); }
  return seen;
}

struct LSResult { bool ok = true, refused = false; std::string cls, msg, names; int shots = 0; std::vector<int> q; };
static LSResult run_lockstep(const std::vector<int> & cs, uint64_t case_seed)
{
  LSResult R; auto & P = lpool(); Rng r(case_seed); int T = (int)cs.size(); int shots = r.range(2, 6); R.shots = shots;
  std::vector<uint64_t> sd(T); std::vector<int> q(T); for (int t = 0; t < T; t++) { sd[t] = r.next() % 100000; q[t] = (int[]){1, 1, 1, 2, 3, 7}[r.range(0, 5)]; } R.q = q;
  std::vector<std::string> seq(T), con(T); std::vector<std::string> err(T);
  for (int t = 0; t < T; t++) { try { seq[t] = lwork(P[cs[t]], sd[t], shots, t, q[t], false); } catch (std::exception & e) { R.refused = true; } }
  if (R.refused) return R;
  LS.start(T); std::vector<std::thread> th;
  for (int t = 0; t < T; t++) th.emplace_back([&, t] { LS.wait_turn(t); try { con[t] = lwork(P[cs[t]], sd[t], shots, t, q[t], true); } catch (std::exception & e) { err[t] = e.what(); } LS.finish(t); });
  for (auto & x : th) x.join();
  for (int t = 0; t < T; t++) R.names += (t ? " + " : "") + P[cs[t]].name + (P[cs[t]].kind == "dbd" ? ":L" + std::to_string(P[cs[t]].level) + ":M" + std::to_string(P[cs[t]].mode) : "");
  for (int t = 0; t < T && R.ok; t++) {
    if (!err[t].empty()) { R.ok = false; R.cls = "lockstep-throws:" + P[cs[t]].name; R.msg = "[" + R.names + "] in lock-step on " + std::to_string(T) + " threads: instance " + std::to_string(t) + " raised '" + err[t] + "' (it does not when run alone)"; }
    else if (seq[t] != con[t]) { R.ok = false; R.cls = "lockstep-events-differ:" + P[cs[t]].name; R.msg = "[" + R.names + "] in lock-step on " + std::to_string(T) + " threads (control handed over at the deviate requests): instance " + std::to_string(t) + " (" + P[cs[t]].name + ") does not produce the events it produces when run alone"; }
  }
  return R;
}

int main(int argc, char ** argv)
{
  Args a(argc, argv);
  Report rep; rep.prop = "C12"; Known known; if (a.has("known")) known.load(a.s("known"));
  std::string replaydir = a.s("replaydir", "replay"), mode = a.s("mode", "kernel");
  int out_fd = dup(1); silence_stdio(true, false);
  // the library prints diagnostics on std::cerr from several threads: do not swap in an unsynchronised streambuf (that would be a
  // race of the harness's own making); send the stderr file descriptor to /dev/null instead (sanitizer reports go to log_path)
  if (!a.has("verbose")) { if (!freopen("/dev/null", "w", stderr)) {} }
  FILE * res = fdopen(out_fd, "w");
  uint64_t seed = a.i("seed", 1); int shard = a.i("shard", 0), nsh = a.i("nshards", 1); bool thorough = a.s("tier", "quick") == "thorough";
  std::map<std::string, int> per;
  auto report = [&](const std::string & cls, const std::string & msg, const std::string & body) {
    std::string sig = "C12|" + mode + "|" + cls; std::string kid = known.match("C12", sig);
    if (!kid.empty()) { rep.known[kid]++; return; }
    if (per[sig]++) { rep.count("further_failures_same_class"); return; }
    std::string path = replaydir + "/C12-" + hash_name(sig + body) + ".json";
    std::ofstream(path) << "{\"property\":\"C12\",\"mode\":" << jstr(mode) << "," << body << ",\"sig\":" << jstr(sig) << ",\"msg\":" << jstr(msg) << "}\n";
    rep.failures.push_back({sig, msg, path});
  };
  try {
    if (a.has("replay")) {
      JV j = jload(a.s("replay"));
      if (j.has("lockstep")) { std::vector<int> cs; for (auto & e : j.at("lockstep").arr) cs.push_back((int)e.num); LSResult R = run_lockstep(cs, strtoull(j.s("case_seed").c_str(), nullptr, 10)); dprintf(out_fd, R.ok ? "REPLAY-PASS\n" : "REPLAY-FAIL class=%s %s\n", R.cls.c_str(), R.msg.c_str()); return R.ok ? 0 : 1; }
      std::vector<std::vector<KCall>> w; for (auto & t : j.at("work").arr) { std::vector<KCall> v; for (auto & c : t.arr) v.push_back({(int)c.arr[0].num, c.arr[1].num, c.arr[2].num, c.arr[3].num}); w.push_back(v); }
      std::vector<int> s; for (auto & e : j.at("schedule").arr) s.push_back((int)e.num);
      KResult r = run_kernel((int)w.size(), w, s); dprintf(out_fd, r.ok ? "REPLAY-PASS\n" : "REPLAY-FAIL class=%s %s\n", r.cls.c_str(), r.msg.c_str()); return r.ok ? 0 : 1;
    }
    if (mode == "kernel") {
      // work assignments: every combination of integrand kinds for the calls
      auto mk = [](int kind) { return kind == 0 ? KCall{0, 0.0, 1.0, 1e-6} : (kind == 1 ? KCall{1, 0.0, 1.0, 1e-8} : KCall{2, 0.0, 1.0, 1e-9}); };
      uint64_t item = 0;
      auto eval = [&](int T, const std::vector<std::vector<KCall>> & w, const std::vector<int> & s) {
        if ((item++ % nsh) != (uint64_t)shard) return;
        KResult r = run_kernel(T, w, s); rep.evaluations++;
        if (!r.ok) { report(r.cls, r.msg, "\"work\":" + work_json(w) + ",\"schedule\":" + sched_json(s)); return; }
        if (r.overlapped && r.had_etol) rep.nt(work_json(w) + sched_json(s));
        rep.label(std::string("T") + std::to_string(T) + (r.overlapped ? ":overlap" : ":serial") + (r.had_etol ? ":etol" : ":ok"));
        if (rep.samples.size() < 4 && r.overlapped && r.had_etol && (item % 37) == 0) rep.sample("{\"work\":" + work_json(w) + ",\"schedule\":" + sched_json(s) + "}");
      };
      // exhaustive 2 threads x 1 call: 5 steps each (start + 4 points) -> C(10,5) = 252 interleavings x 9 kind pairs
      for (int k0 = 0; k0 < 3; k0++) for (int k1 = 0; k1 < 3; k1++) {
        std::vector<std::vector<KCall>> w = {{mk(k0)}, {mk(k1)}}; std::vector<int> left = {5, 5}, cur;
        enum_interleavings(left, cur, [&](const std::vector<int> & s) { eval(2, w, s); });
      }
      rep.counters["exhaustive_2x1_interleavings_per_kind_pair"] = 252;
      if (thorough) {
        // exhaustive 2 threads x 2 calls: 9 steps each -> C(18,9) = 48620 interleavings, for the two kind assignments that matter most
        for (int v = 0; v < 2; v++) {
          std::vector<std::vector<KCall>> w = v == 0 ? std::vector<std::vector<KCall>>{{mk(1), mk(0)}, {mk(0), mk(1)}} : std::vector<std::vector<KCall>>{{mk(1), mk(2)}, {mk(2), mk(1)}};
          std::vector<int> left = {9, 9}, cur; enum_interleavings(left, cur, [&](const std::vector<int> & s) { eval(2, w, s); });
        }
        rep.counters["exhaustive_2x2_interleavings_per_assignment"] = 48620;
      }
      // random schedules for 3 threads
      long nrand = a.i("random", thorough ? 100000 : 4000);
      for (long k = 0; k < nrand; k++) {
        Rng r(mix(mix(seed, 0xC12), k)); int T = r.range(2, 3), C = r.range(1, 2);
        std::vector<std::vector<KCall>> w(T); for (int t = 0; t < T; t++) for (int c = 0; c < C; c++) w[t].push_back(mk(r.range(0, 2)));
        std::vector<int> s; std::vector<int> left(T, 1 + 4 * C); int tot = T * (1 + 4 * C); for (int i = 0; i < tot; i++) { int t; do { t = r.range(0, T - 1); } while (left[t] == 0); left[t]--; s.push_back(t); }
        eval(T, w, s);
      }
    } else if (mode == "gen" || mode == "free") {
      long ncase = a.i("cases", thorough ? 400 : 40); g_patience_ms = 40;
      if (mode == "free") {
        // same configuration on every thread, for every double-beta entry of the lock-step pool (one per legacy mode) and a few background
        // nuclides: two instances running the SAME code at the same time after a start barrier is what exposes unsynchronised function-level
        // statics (lazy tables, caches in an integrand) to the race detector and to the solo comparison - initialisation included
        auto & P = lpool(); std::vector<int> same; for (int i = 0; i < (int)P.size(); i++) same.push_back(i);   // every pool entry: a helper used by a handful of nuclides only (one spectrum shape, one atomic-shell routine) is reached through them alone
        for (size_t k = shard; k < same.size(); k += nsh) {
          const LCfg & c = P[same[k]]; int T = (k % 3 == 2) ? 4 : 2; std::vector<uint64_t> sd(T); for (int t = 0; t < T; t++) sd[t] = 1000 + 17 * k + t;
          gsl_set_error_handler(&h0); g_h0_calls = 0; bxdecay0::verif::gauss_schedule_point = nullptr;
          std::vector<std::string> seq(T), con(T); std::vector<std::thread> th; std::atomic<int> ready{0};
          for (int t = 0; t < T; t++) th.emplace_back([&, t] { ready++; while (ready.load() < T) std::this_thread::yield(); try { con[t] = lwork(c, sd[t], 12, t, 1, false); } catch (std::exception & e) { con[t] = std::string("EXC:") + e.what(); } });
          for (auto & x : th) x.join();
          for (int t = 0; t < T; t++) { try { seq[t] = lwork(c, sd[t], 12, t, 1, false); } catch (std::exception & e) { seq[t] = std::string("EXC:") + e.what(); } }
          rep.evaluations++;
          std::string body = "\"same_config\":" + jstr(c.name + ":L" + std::to_string(c.level) + ":M" + std::to_string(c.mode)) + ",\"threads\":" + std::to_string(T);
          bool same_ev = true; for (int t = 0; t < T; t++) if (seq[t] != con[t]) same_ev = false;
          if (g_h0_calls.load()) { report("default-handler-invoked", "same configuration on " + std::to_string(T) + " threads: default GSL handler invoked", body); continue; }
          if (!same_ev) { report("events-differ:" + c.name + ":M" + std::to_string(c.mode), c.name + " mode " + std::to_string(c.mode) + " initialised and shot on " + std::to_string(T) + " threads at the same time: an instance does not produce the events it produces alone", body); continue; }
          rep.nt(body); rep.label("same-config:T" + std::to_string(T));
        }
        // the four gA configurations at the same time, one per thread (their table loaders overlap)
        std::vector<int> ga; for (int i = 0; i < (int)P.size(); i++) if (P[i].mode >= 21) ga.push_back(i);
        if (ga.size() >= 2) for (int rep_k = shard; rep_k < 6; rep_k += nsh) {
          int T = (int)ga.size(); std::vector<std::string> seq(T), con(T); std::vector<std::thread> th; std::atomic<int> ready{0};
          gsl_set_error_handler(&h0); g_h0_calls = 0;
          for (int t = 0; t < T; t++) th.emplace_back([&, t] { ready++; while (ready.load() < T) std::this_thread::yield(); try { con[t] = lwork(P[ga[t]], 500 + rep_k, 3, t, 1, false); } catch (std::exception & e) { con[t] = std::string("EXC:") + e.what(); } });
          for (auto & x : th) x.join();
          for (int t = 0; t < T; t++) { try { seq[t] = lwork(P[ga[t]], 500 + rep_k, 3, t, 1, false); } catch (std::exception & e) { seq[t] = std::string("EXC:") + e.what(); } }
          rep.evaluations++; bool same_ev = true; for (int t = 0; t < T; t++) if (seq[t] != con[t]) same_ev = false;
          std::string body = "\"ga_configs_together\":" + std::to_string(T) + ",\"round\":" + std::to_string(rep_k);
          if (!same_ev) { report("events-differ:gA-modes", "the four gA configurations initialised and shot on " + std::to_string(T) + " threads at the same time: an instance does not behave as it does alone (" + (con[0].compare(0, 4, "EXC:") == 0 ? con[0] : std::string("events differ")) + ")", body); continue; }
          rep.nt(body); rep.label("gA-together");
        }
      }
      // tabulated-spectra samplers used directly (the public dbd_gA class, REJECTION method, which decay0_generator does not select): two or three
      // of them shooting at the same time, next to a generator whose initialisation runs quadratures that miss their tolerance.  Anything process-wide
      // they touch while sampling (the GSL error handler, an interpolation accelerator shared between objects) shows as a handler that is not the
      // application's after the join, as an invocation of the aborting default, or as energies that differ from a solo run.
      if (mode == "free" && getenv("BXDECAY0_DBD_GA_DATA_DIR")) for (int rk = shard; rk < 12; rk += nsh) {
        static const char * NUC[] = {"Se82", "Mo100", "Cd116", "Nd150"}; int T = 2 + rk % 2; int nshots = 60 + 40 * (rk % 3); bool with_gen = rk % 2 == 0;
        auto rejwork = [&](int t) { std::string d; try { bxdecay0::dbd_gA ga; ga.set_nuclide(NUC[(rk + t) % 4]); ga.set_process(bxdecay0::dbd_gA::PROCESS_G0); ga.set_shooting(bxdecay0::dbd_gA::SHOOTING_REJECTION); ga.initialize();
            Tape tp; tp.seed = mix(9000 + rk, t); TapeRandom r(tp, 0, 100000000); for (int k = 0; k < nshots; k++) { double e1, e2; ga.shoot_e1_e2(r, e1, e2); d.append((const char *)&e1, sizeof e1); d.append((const char *)&e2, sizeof e2); } } catch (std::exception & e) { d = std::string("EXC:") + e.what(); } return d; };
        gsl_set_error_handler(&h0); g_h0_calls = 0; bxdecay0::verif::gauss_schedule_point = nullptr;
        std::vector<std::string> con(T + 1), seq(T + 1); std::vector<std::thread> th; std::atomic<int> ready{0}; int NT = T + (with_gen ? 1 : 0);
        for (int t = 0; t < T; t++) th.emplace_back([&, t] { ready++; while (ready.load() < NT) std::this_thread::yield(); con[t] = rejwork(t); });
        if (with_gen) th.emplace_back([&] { ready++; while (ready.load() < NT) std::this_thread::yield(); try { con[T] = gwork(rk % NGC, 4000 + rk, 2); } catch (std::exception & e) { con[T] = std::string("EXC:") + e.what(); } });
        for (auto & x : th) x.join();
        long fired = g_h0_calls.load(); gsl_error_handler_t * after = gsl_set_error_handler(&h0);
        for (int t = 0; t < T; t++) seq[t] = rejwork(t);
        if (with_gen) { try { seq[T] = gwork(rk % NGC, 4000 + rk, 2); } catch (std::exception & e) { seq[T] = std::string("EXC:") + e.what(); } }
        rep.evaluations++;
        std::string body = "\"rejection_samplers\":" + std::to_string(T) + ",\"with_generator\":" + (with_gen ? "true" : "false") + ",\"round\":" + std::to_string(rk);
        if (fired) { report("default-handler-invoked", "gA rejection samplers on " + std::to_string(T) + " threads" + (with_gen ? " next to a generator" : "") + ": a library call ran with the process-wide default GSL error handler installed and it was invoked (the real default aborts)", body); continue; }
        if (after != &h0) { report("handler-not-restored", "after gA rejection samplers ran on " + std::to_string(T) + " threads the GSL error handler is not the one the application installed", body); continue; }
        bool same_r = true; for (int t = 0; t < NT; t++) if (seq[t] != con[t]) same_r = false;
        if (!same_r) { report("events-differ:gA-rejection", "a gA rejection sampler (or the generator next to it) produced other values than when run alone", body); continue; }
        rep.nt(body); rep.label("gA-rejection-samplers");
      }
      for (long k = shard; k < ncase; k += nsh) {
        Rng r(mix(mix(seed, 0xC1202), k)); int T = r.range(2, 4), shots = r.range(1, 4);
        std::vector<int> cfg(T); std::vector<uint64_t> sd(T); for (int t = 0; t < T; t++) { cfg[t] = r.range(0, NGC - 1); sd[t] = r.next() % 100000; }
        gsl_set_error_handler(&h0); g_h0_calls = 0; bxdecay0::verif::gauss_schedule_point = nullptr;
        std::vector<std::string> seq(T), con(T);
        // scheduled mode: sequential reference first; free-running mode: threads first, so that first-use initialisation of the
        // library's function-local statics happens concurrently (each process starts cold)
        if (mode == "gen") {
          for (int t = 0; t < T; t++) seq[t] = gwork(cfg[t], sd[t], shots);
          if (g_h0_calls != 0) { report("sequential-h0", "recording handler fires in a single-threaded run", "\"case\":" + std::to_string(k)); continue; }
        }
        std::vector<std::thread> th; std::vector<int> s;
        if (mode == "gen") {
          S.reset(T); bxdecay0::verif::gauss_schedule_point = &sched_point;
          for (int t = 0; t < T; t++) th.emplace_back([&, t] { t_id = t; park(); con[t] = gwork(cfg[t], sd[t], shots); finish(); });
          int steps = r.range(50, 600);
          for (int i = 0; i < steps; i++) { int t = r.range(0, T - 1); s.push_back(t); grant(t); }
          S.release_all();
        } else {
          std::atomic<int> ready{0};
          for (int t = 0; t < T; t++) th.emplace_back([&, t] { ready++; while (ready.load() < T) std::this_thread::yield(); con[t] = gwork(cfg[t], sd[t], shots); });
        }
        for (auto & x : th) x.join();
        bxdecay0::verif::gauss_schedule_point = nullptr; S.active = false;
        long fired = g_h0_calls.load(); gsl_error_handler_t * after = gsl_set_error_handler(&h0);
        rep.evaluations++;
        if (mode == "free") { gsl_set_error_handler(&h0); for (int t = 0; t < T; t++) seq[t] = gwork(cfg[t], sd[t], shots); }
        std::string body = "\"case\":" + std::to_string(k) + ",\"configs\":" + sched_json(cfg) + ",\"schedule_prefix\":" + sched_json(std::vector<int>(s.begin(), s.begin() + std::min<size_t>(s.size(), 60)));
        if (fired) { report("default-handler-invoked", "generators on " + std::to_string(T) + " threads: a quadrature that misses its tolerance ran with the process-wide default GSL error handler installed (" + std::to_string(fired) + " invocations): the real default aborts the process", body); continue; }
        if (after != &h0) { report("handler-not-restored", "after all generator threads joined the GSL error handler is not the one installed before", body); continue; }
        bool same = true; for (int t = 0; t < T; t++) if (seq[t] != con[t]) same = false;
        if (!same) { report("events-differ", "an instance produced different events when other instances ran on other threads", body); continue; }
        rep.nt(sched_json(cfg) + std::to_string(k)); rep.label("T" + std::to_string(T));
        if (rep.samples.size() < 3) rep.sample("{" + body + "}");
      }
    } else if (mode == "lockstep") {
      auto & P = lpool(); int NP = (int)P.size();
      // case list: (1) for every helper routine shared by >= 2 pool entries, up to `per` pairs of distinct entries that both reach it; (2) every entry with itself
      // (other deviates); (3) random pairs and triples
      std::vector<std::vector<int>> cases; Rng rr(mix(seed, 0xC1203));
      std::map<std::string, std::vector<int>> users; for (int i = 0; i < NP; i++) for (auto & h : helpers_of(P[i])) users[h].push_back(i);
      int per = (int)a.i("per_helper", thorough ? 40 : 8);
      for (auto & u : users) { if (u.second.size() < 2) continue; size_t n = u.second.size(); size_t all = n * (n - 1);
        if (all <= (size_t)per) { for (int x : u.second) for (int y : u.second) if (x != y) cases.push_back({x, y}); }
        else for (int k = 0; k < per; k++) { int x = u.second[rr.range(0, (int)n - 1)], y; do { y = u.second[rr.range(0, (int)n - 1)]; } while (y == x); cases.push_back({x, y}); } }
      rep.counters["lockstep_helper_routines_with_shared_users"] = 0; for (auto & u : users) if (u.second.size() >= 2) rep.counters["lockstep_helper_routines_with_shared_users"]++;
      for (int i = 0; i < NP; i++) cases.push_back({i, i});
      long nrand = a.i("random", thorough ? 6000 : 400);
      for (long k = 0; k < nrand; k++) { int T = rr.chance(0.8) ? 2 : 3; std::vector<int> c; for (int t = 0; t < T; t++) c.push_back(rr.range(0, NP - 1)); cases.push_back(c); }
      rep.counters["lockstep_cases_total"] = cases.size();
      for (size_t k = shard; k < cases.size(); k += nsh) {
        auto & cs = cases[k]; int T = (int)cs.size(); uint64_t case_seed = mix(mix(seed, 0xC1204), k);
        LSResult R = run_lockstep(cs, case_seed);
        if (R.refused) { rep.count("lockstep_reference_refused"); continue; }
        rep.evaluations++;
        std::string body = "\"lockstep\":" + sched_json(cs) + ",\"case_seed\":\"" + std::to_string(case_seed) + "\",\"names\":" + jstr(R.names) + ",\"shots\":" + std::to_string(R.shots) + ",\"handover_every\":" + sched_json(R.q);
        if (!R.ok) { report(R.cls, R.msg, body); continue; }
        rep.nt(sched_json(cs)); rep.label("lockstep:T" + std::to_string(T));
        if (rep.samples.size() < 3 && cs[0] != cs[1]) rep.sample("{" + body + "}");
      }
    }
  } catch (std::exception & e) { fprintf(res, "HARNESS-ERROR %s\n", e.what()); fflush(res); return 2; }
  rep.write(a.s("out", "report.json"));
  fprintf(res, "done evaluations=%llu failures=%zu\n", (unsigned long long)rep.evaluations, rep.failures.size()); fflush(res);
  return 0;
}
