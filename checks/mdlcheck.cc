// mdlcheck.cc -- C10: the momentum-direction-lock operation only re-orients (rigid rotation into the requested cone).
#include <cmath>
#include <cstring>
#include <iostream>
#include <memory>
#include <unistd.h>

#include <bxdecay0/decay0_generator.h>
#include <bxdecay0/mdl_event_op.h>
#include "../engine/vf.hpp"
#include "catalog.hpp"

using namespace vf;
typedef bxdecay0::decay0_generator G;
typedef bxdecay0::momentum_direction_lock_event_op MDL;

struct V3 { double x, y, z; };
static V3 mom(const bxdecay0::particle & p) { return {p.get_px(), p.get_py(), p.get_pz()}; }
static double dot(const V3 & a, const V3 & b) { return a.x * b.x + a.y * b.y + a.z * b.z; }
static double norm(const V3 & a) { return std::sqrt(dot(a, a)); }

struct Case
{
  // event source
  bool synthetic = true; std::string kind, name; int level = 0, mode = 0; uint64_t evseed = 0;
  // operation
  int ep = 0;               // 0 degrees config_type, 1 vector/circular, 2 angles/circular, 3 vector/rect, 4 angles/rect
  int code = 0;             // particle_code (0 = all)
  int rank = -1; bool err_missing = false;
  double phi = 0, theta = 0, ax = 0, ay = 0, az = 1, axis_scale = 1; // axis: by angles (radians) and the derived vector
  double ap1 = 0, ap2 = -1; // radians; ap2 < 0 : circular
  uint64_t opseed = 0;
  uint64_t prior = 0;       // != 0: the op object was configured before with the case gen_case(prior) (and not reset): re-configuration must behave like a fresh op
  uint64_t prior_ev = 0;    // != 0: the SAME op object processed 1-3 other events (other layouts) before this one: it must behave like a fresh op on this event
  std::string json() const
  {
    char b[600];
    snprintf(b, sizeof b, "{\"synthetic\":%s,\"kind\":\"%s\",\"name\":\"%s\",\"level\":%d,\"mode\":%d,\"evseed\":\"%llu\",\"ep\":%d,\"code\":%d,\"rank\":%d,\"err_missing\":%s,\"phi\":\"%a\",\"theta\":\"%a\",\"axis_scale\":\"%a\",\"ap1\":\"%a\",\"ap2\":\"%a\",\"opseed\":\"%llu\",\"prior\":\"%llu\",\"prior_ev\":\"%llu\"}",
             synthetic ? "true" : "false", kind.c_str(), name.c_str(), level, mode, (unsigned long long)evseed, ep, code, rank, err_missing ? "true" : "false", phi, theta, axis_scale, ap1, ap2, (unsigned long long)opseed, (unsigned long long)prior, (unsigned long long)prior_ev);
    return b;
  }
  static Case from(const JV & j)
  {
    Case c; c.synthetic = j.at("synthetic").b; c.kind = j.s("kind"); c.name = j.s("name"); c.level = (int)j.n("level", 0); c.mode = (int)j.n("mode", 0);
    c.evseed = strtoull(j.s("evseed").c_str(), nullptr, 10); c.ep = (int)j.n("ep", 0); c.code = (int)j.n("code", 0); c.rank = (int)j.n("rank", -1); c.err_missing = j.at("err_missing").b;
    c.phi = strtod(j.s("phi").c_str(), nullptr); c.theta = strtod(j.s("theta").c_str(), nullptr); c.axis_scale = strtod(j.s("axis_scale").c_str(), nullptr);
    c.ap1 = strtod(j.s("ap1").c_str(), nullptr); c.ap2 = strtod(j.s("ap2").c_str(), nullptr); c.opseed = strtoull(j.s("opseed").c_str(), nullptr, 10); c.prior = strtoull(j.s("prior", "0").c_str(), nullptr, 10); c.prior_ev = strtoull(j.s("prior_ev", "0").c_str(), nullptr, 10);
    c.derive(); return c;
  }
  void derive() { ax = axis_scale * std::cos(phi) * std::sin(theta); ay = axis_scale * std::sin(phi) * std::sin(theta); az = axis_scale * std::cos(theta); }
  bool rect() const { return ap2 >= 0; }
};

static const char * label_of(int code) { switch (code) { case 1: return "gamma"; case 2: return "e+"; case 3: return "e-"; case 47: return "alpha"; case 13: return "neutron"; default: return "all"; } }

// configure the op through the entry point under test; throws if the entry point refuses
static void setup_op(MDL & op, const Case & c)
{
  bxdecay0::particle_code code = (bxdecay0::particle_code)c.code;
  switch (c.ep) {
  case 0: {
    MDL::config_type cf; cf.particle_label = label_of(c.code); cf.target_particle_rank = c.rank; cf.cone_phi_degree = c.phi * 180.0 / M_PI; cf.cone_theta_degree = c.theta * 180.0 / M_PI;
    cf.cone_aperture_degree = c.ap1 * 180.0 / M_PI; cf.cone_aperture2_degree = c.rect() ? c.ap2 * 180.0 / M_PI : -1.0; cf.error_on_missing_particle = c.err_missing; op.set(cf); break; }
  case 1: op.set(code, c.rank, c.ax, c.ay, c.az, c.ap1, c.err_missing); break;
  case 2: op.set(code, c.rank, c.phi, c.theta, c.ap1, c.err_missing); break;
  case 3: op.set_with_aperture_rectangular_cut(code, c.rank, c.ax, c.ay, c.az, c.ap1, c.ap2, c.err_missing); break;
  default: op.set_with_aperture_rectangular_cut(code, c.rank, c.phi, c.theta, c.ap1, c.ap2, c.err_missing); break;
  }
}

static Case gen_case(uint64_t h);
// configure the op for the case; when the case carries a prior configuration, apply that one first to the same object (no reset)
static void setup_op_hist(MDL & op, const Case & c)
{
  // a USED op object: configured with another generated configuration first, then (by c.prior % 3) configured again as it is / after reset() /
  // after deactivate() - in every case it must behave like a new object with the configuration under test
  if (c.prior) { Case p = gen_case(c.prior); p.prior = 0; try { setup_op(op, p); } catch (std::exception &) {} if (c.prior % 3 == 1) op.reset(); else if (c.prior % 3 == 2) op.deactivate(); }
  setup_op(op, c);
}

static void synth_event(bxdecay0::event & ev, uint64_t seed)
{
  Rng r(seed); int n = r.range(1, 12); ev.set_generator("synthetic"); ev.set_time(0.0);
  static const bxdecay0::particle_code codes[] = {bxdecay0::GAMMA, bxdecay0::ELECTRON, bxdecay0::POSITRON, bxdecay0::ALPHA};
  int style = r.range(0, 5); double t = 0;
  V3 common{0, 0, 1}; { double ct = r.uniform(-1, 1), ph = r.uniform(0, 2 * M_PI), st = std::sqrt(1 - ct * ct); common = {st * std::cos(ph), st * std::sin(ph), ct}; }
  for (int i = 0; i < n; i++) {
    bxdecay0::particle p; p.set_code(codes[r.range(0, 3)]); if (r.chance(0.3)) t += std::pow(10.0, r.uniform(-12, 3)); p.set_time(t);
    double mag = std::pow(10.0, r.uniform(-3, 1)); V3 d;
    if (style == 0) d = common;                                                           // all collinear
    else if (style == 1) { static const V3 ax[] = {{1,0,0},{-1,0,0},{0,1,0},{0,-1,0},{0,0,1},{0,0,-1}}; d = ax[r.range(0, 5)]; } // axis aligned
    else if (style == 2 && i % 2) d = {-common.x, -common.y, -common.z};               // back to back
    else { double ct = r.uniform(-1, 1), ph = r.uniform(0, 2 * M_PI), st = std::sqrt(1 - ct * ct); d = {st * std::cos(ph), st * std::sin(ph), ct}; }
    p.set_momentum(mag * d.x, mag * d.y, mag * d.z); ev.add_particle(p);
  }
}

struct Res { bool ok = true; std::string cls, msg; bool skipped = false; std::string nt; };

static bool in_cone(const Case & c, const V3 & u /*momentum*/, std::string & why)
{
  V3 a{c.ax, c.ay, c.az}; double an = norm(a); a = {a.x / an, a.y / an, a.z / an};
  double un = norm(u); double cz = dot(u, a) / un;
  if (!c.rect()) {
    double ang = std::acos(std::max(-1.0, std::min(1.0, cz)));
    if (ang > c.ap1 + 1e-7) { why = "angle to the cone axis " + jnum(ang) + " > aperture " + jnum(c.ap1); return false; }
    return true;
  }
  // rectangular window in the cone frame: x along e_theta, y along e_phi of the axis direction
  double ph = std::atan2(a.y, a.x), th = std::acos(a.z);
  V3 eth{std::cos(th) * std::cos(ph), std::cos(th) * std::sin(ph), -std::sin(th)}, eph{-std::sin(ph), std::cos(ph), 0};
  double cx = dot(u, eth) / un, cy = dot(u, eph) / un;
  if (!(cz > 0)) { why = "direction is behind the cone apex plane (cos=" + jnum(cz) + ")"; return false; }
  double X = std::fabs(cx / cz), Y = std::fabs(cy / cz);
  if (X > std::tan(c.ap1) * (1 + 1e-7) + 1e-9) { why = "tan(theta)cos(phi)=" + jnum(X) + " exceeds tan(aperture1)=" + jnum(std::tan(c.ap1)); return false; }
  if (Y > std::tan(c.ap2) * (1 + 1e-7) + 1e-9) { why = "tan(theta)sin(phi)=" + jnum(Y) + " exceeds tan(aperture2)=" + jnum(std::tan(c.ap2)) + " (second half-angle not honoured)"; return false; }
  return true;
}

static const size_t LIM = 200000;

static bool bit_same_event(const bxdecay0::event & a, const bxdecay0::event & b, std::string & why)
{
  const auto & pa = a.get_particles(); const auto & pb = b.get_particles();
  if (pa.size() != pb.size()) { why = "particle count"; return false; }
  for (size_t i = 0; i < pa.size(); i++) {
    double x[4] = {pa[i].get_px(), pa[i].get_py(), pa[i].get_pz(), pa[i].get_time()}, y[4] = {pb[i].get_px(), pb[i].get_py(), pb[i].get_pz(), pb[i].get_time()};
    if (pa[i].get_code() != pb[i].get_code() || memcmp(x, y, sizeof x)) { why = "particle " + std::to_string(i); return false; }
  }
  return true;
}

static Res check_case(const Case & c)
{
  Res r; auto fail = [&](const std::string & cls, const std::string & m) { if (r.ok) { r.ok = false; r.cls = cls; r.msg = m; } return r; };
  // ---- E0 and the position of the tape after the decay
  bxdecay0::event e0; Tape tape; tape.seed = c.opseed; size_t pos_after = 0;
  std::shared_ptr<MDL> op(new MDL);
  try { setup_op_hist(*op, c); } catch (std::exception & e) { r.skipped = true; r.msg = e.what(); return r; }
  if (!op->is_active() || !op->is_valid()) return fail("op-invalid-after-set", std::string("the configuration call succeeded but the operation reports is_active()=") + (op->is_active() ? "true" : "false") + ", is_valid()=" + (op->is_valid() ? "true" : "false") + (c.prior ? (c.prior % 3 == 1 ? " (object configured before, then reset())" : (c.prior % 3 == 2 ? " (object configured before, then deactivate())" : " (object configured before)")) : ""));
  bxdecay0::event e1;
  if (c.synthetic && c.prior_ev) { // earlier events through the same op object (their outcome is not judged here)
    for (int k = 0; k < 1 + (int)(c.prior_ev % 3); k++) { bxdecay0::event pe; synth_event(pe, c.prior_ev + 7 * k); Tape pt; pt.seed = c.prior_ev ^ (0x9e + k); TapeRandom pr(pt, 0, LIM); try { (*op)(pr, pe); } catch (std::exception &) {} }
  }
  if (c.synthetic) {
    synth_event(e0, c.evseed); e1 = e0;
    if (c.opseed % 16 == 0) { // a deactivated operation passes the event through: nothing changes, no deviate is drawn, no target is reported
      op->deactivate(); bxdecay0::event ei = e0; TapeRandom ri(tape, 0, LIM);
      try { (*op)(ri, ei); } catch (std::exception & e) { return fail("inactive-op-throws", std::string("deactivated operation raised: ") + e.what()); }
      std::string why; if (!bit_same_event(ei, e0, why) || ri.pos != 0 || op->get_last_target_index() != -1) return fail("inactive-op-acts", "a deactivated operation changed the event, drew deviates or reported a target: " + why);
      op->activate();
    }
    TapeRandom rr(tape, 0, LIM);
    bool threw = false; std::string what;
    try { (*op)(rr, e1); } catch (TapeOverrun &) { return fail("unbounded", "operation consumed more than " + std::to_string(LIM) + " deviates"); } catch (std::exception & e) { threw = true; what = e.what(); }
    if (threw) { e1 = e0; r.msg = what; goto missing_check; }
  } else {
    G g0, g1; Tape it0; it0.seed = c.evseed; Tape it1; it1.seed = c.evseed;
    auto conf = [&](G & g) { if (c.kind == "bkg") { g.set_decay_category(G::DECAY_CATEGORY_BACKGROUND); g.set_decay_isotope(c.name); } else { g.set_decay_category(G::DECAY_CATEGORY_DBD); g.set_decay_isotope(c.name); g.set_decay_dbd_level(c.level); g.set_decay_dbd_mode((bxdecay0::dbd_mode_type)c.mode); } };
    conf(g0); conf(g1); g1.add_operation(op);
    TapeRandom ri0(it0, 0, LIM), ri1(it1, 0, LIM); g0.initialize(ri0); g1.initialize(ri1);
    if (ri0.pos != ri1.pos) return fail("init-consumes", "initialisation consumes a different number of deviates with the operation registered");
    if (c.prior_ev) for (int k = 0; k < 1 + (int)(c.prior_ev % 3); k++) { bxdecay0::event pe; Tape pt; pt.seed = c.prior_ev ^ (0x9e + k); TapeRandom pr(pt, 0, LIM); try { g1.shoot(pr, pe); } catch (std::exception &) {} }
    TapeRandom r0(tape, 0, LIM); g0.shoot(r0, e0); pos_after = r0.pos;
    TapeRandom r1(tape, 0, LIM); bool threw = false; std::string what;
    try { g1.shoot(r1, e1); } catch (TapeOverrun &) { return fail("unbounded", "shot with operation consumed more than " + std::to_string(LIM) + " deviates"); } catch (std::exception & e) { threw = true; what = e.what(); }
    if (threw) { r.msg = what; e1 = e0; goto missing_check; }
    // E1 must be the operation applied to E0 with the tape suffix: the decay consumed exactly the deviates it consumes without the op
    MDL op2; setup_op_hist(op2, c); bxdecay0::event e2 = e0; TapeRandom r2(tape, pos_after, LIM); op2(r2, e2);
    const auto & p1 = e1.get_particles(); const auto & p2 = e2.get_particles();
    if (p1.size() != p2.size()) return fail("decay-sample-changed", "particle count with op " + std::to_string(p1.size()) + " vs op applied afterwards " + std::to_string(p2.size()));
    for (size_t i = 0; i < p1.size(); i++) {
      double x[4] = {p1[i].get_px(), p1[i].get_py(), p1[i].get_pz(), p1[i].get_time()}, y[4] = {p2[i].get_px(), p2[i].get_py(), p2[i].get_pz(), p2[i].get_time()};
      if (p1[i].get_code() != p2[i].get_code() || memcmp(x, y, sizeof x)) return fail("decay-sample-changed", "event with registered op differs from op applied to the op-less event on the tape suffix (particle " + std::to_string(i) + ")");
    }
    if (r1.pos != r2.pos) return fail("decay-sample-changed", "deviates consumed differ");
  }
  {
    // ---- invariants E1 vs E0
    const auto & a = e0.get_particles(); const auto & b = e1.get_particles();
    for (auto & p : a) if (!std::isfinite(p.get_px()) || !std::isfinite(p.get_py()) || !std::isfinite(p.get_pz()) || !(p.get_p() > 0)) { r.skipped = true; r.msg = "input event is not a valid event (non-finite or null momentum)"; return r; }
    if (a.size() != b.size()) return fail("count", "number of particles changed " + std::to_string(a.size()) + " -> " + std::to_string(b.size()));
    std::vector<int> selected;
    for (size_t i = 0; i < a.size(); i++) {
      if (a[i].get_code() != b[i].get_code()) return fail("species", "species of particle " + std::to_string(i) + " changed");
      if (a[i].get_time() != b[i].get_time()) return fail("time", "time of particle " + std::to_string(i) + " changed");
      double pa = a[i].get_p(), pb = b[i].get_p();
      if (std::fabs(pa - pb) > 1e-12 * pa + 1e-15) return fail("magnitude", "|p| of particle " + std::to_string(i) + " changed " + jnum(pa) + " -> " + jnum(pb));
      if (c.code == 0 || (int)a[i].get_code() == c.code) selected.push_back((int)i);
    }
    if (e0.get_generator() != e1.get_generator() || !(e0.get_time() == e1.get_time())) return fail("event-attrs", "event label or reference time changed");
    int nsel = (int)selected.size();
    if (c.rank >= 0) {
      if (nsel > c.rank) {
        int ti = selected[c.rank];
        if (op->get_last_target_index() != ti && !c.synthetic) {} // (op object of g1 is `op`)
        if (op->get_last_target_index() != ti) return fail("target-index", "get_last_target_index()=" + std::to_string(op->get_last_target_index()) + " expected " + std::to_string(ti));
        // rigid: all pairwise dot products preserved
        for (size_t i = 0; i < a.size(); i++) for (size_t j = i; j < a.size(); j++) {
          double d0 = dot(mom(a[i]), mom(a[j])), d1 = dot(mom(b[i]), mom(b[j])), sc = norm(mom(a[i])) * norm(mom(a[j]));
          if (std::fabs(d0 - d1) > 1e-9 * sc + 1e-15) return fail("not-rigid", "angle between particles " + std::to_string(i) + " and " + std::to_string(j) + " changed: p.p " + jnum(d0) + " -> " + jnum(d1));
        }
        // proper rotation (no reflection): triple products preserved
        if (a.size() >= 3) {
          auto trip = [](const V3 & u, const V3 & v, const V3 & w) { return u.x * (v.y * w.z - v.z * w.y) - u.y * (v.x * w.z - v.z * w.x) + u.z * (v.x * w.y - v.y * w.x); };
          double t0 = trip(mom(a[0]), mom(a[1]), mom(a[2])), t1 = trip(mom(b[0]), mom(b[1]), mom(b[2])), sc = norm(mom(a[0])) * norm(mom(a[1])) * norm(mom(a[2]));
          if (std::fabs(t0 - t1) > 1e-9 * sc + 1e-15) return fail("not-rigid", "orientation (triple product) of the first three particles changed: reflection instead of rotation");
        }
        std::string why;
        if (!in_cone(c, mom(b[ti]), why)) return fail(c.rect() ? "target-outside-window" : "target-outside-cone", "target particle " + std::to_string(ti) + ": " + why);
        r.nt = std::string("target|") + (c.rect() ? "rect" : "circ") + "|n" + std::to_string(std::min<size_t>(a.size(), 6)) + "|sel" + std::to_string(std::min(nsel, 4));
      } else goto missing_check;
    } else {
      if (nsel > 0) {
        if (op->get_last_target_index() != -1) return fail("target-index", "get_last_target_index() should be -1 in selection mode");
        for (size_t i = 0; i < a.size(); i++) {
          bool sel = c.code == 0 || (int)a[i].get_code() == c.code;
          if (sel) { std::string why; if (!in_cone(c, mom(b[i]), why)) return fail(c.rect() ? "selected-outside-window" : "selected-outside-cone", "selected particle " + std::to_string(i) + ": " + why); }
          else {
            double x[3] = {a[i].get_px(), a[i].get_py(), a[i].get_pz()}, y[3] = {b[i].get_px(), b[i].get_py(), b[i].get_pz()};
            if (memcmp(x, y, sizeof x)) return fail("unselected-touched", "particle " + std::to_string(i) + " is not selected but its momentum changed");
          }
        }
        r.nt = std::string("select|") + (c.rect() ? "rect" : "circ") + "|n" + std::to_string(std::min<size_t>(a.size(), 6)) + "|sel" + std::to_string(std::min(nsel, 4));
      } else goto missing_check;
    }
    return r;
  }
missing_check:
  {
    // nothing selected (or the rank-th selected particle does not exist): event unchanged, or an error iff requested
    const auto & a = e0.get_particles();
    int nsel = 0; for (auto & p : a) if (c.code == 0 || (int)p.get_code() == c.code) nsel++;
    bool missing = (c.rank < 0) ? nsel == 0 : nsel <= c.rank;
    bool threw = !r.msg.empty() && r.ok;
    if (!missing && threw) return fail("unexpected-error", "operation raised '" + r.msg + "' although the requested particle exists");
    if (missing) {
      if (c.err_missing && !threw) return fail("missing-no-error", "no particle matches (code " + std::to_string(c.code) + ", rank " + std::to_string(c.rank) + ") and error_on_missing_particle is set, but no error was raised");
      if (!c.err_missing && threw) return fail("missing-error", "operation raised '" + r.msg + "' although error_on_missing_particle is not set");
      const auto & b = e1.get_particles();
      if (a.size() != b.size()) return fail("missing-changed", "event changed although nothing is selected");
      for (size_t i = 0; i < a.size(); i++) {
        double x[4] = {a[i].get_px(), a[i].get_py(), a[i].get_pz(), a[i].get_time()}, y[4] = {b[i].get_px(), b[i].get_py(), b[i].get_pz(), b[i].get_time()};
        if (memcmp(x, y, sizeof x)) return fail("missing-changed", "event changed although nothing is selected (particle " + std::to_string(i) + ")");
      }
      r.msg.clear(); r.nt = std::string("missing|") + (c.err_missing ? "err" : "pass");
    }
    return r;
  }
}

// metamorphic: the degree entry point must equal the radian entry point with converted angles (same tape => same event)
static Res check_degree_vs_radian(const Case & c0)
{
  Res r; Case cd = c0, cr = c0; cd.ep = 0; cr.ep = c0.rect() ? 4 : 2;
  bxdecay0::event e0; synth_event(e0, c0.evseed); bxdecay0::event ed = e0, er = e0;
  MDL od, orr; try { setup_op(od, cd); setup_op(orr, cr); } catch (std::exception &) { r.skipped = true; return r; }
  Tape t; t.seed = c0.opseed; TapeRandom r1(t, 0, LIM), r2(t, 0, LIM); bool t1 = false, t2 = false;
  try { od(r1, ed); } catch (std::exception &) { t1 = true; } try { orr(r2, er); } catch (std::exception &) { t2 = true; }
  if (t1 != t2) { r.ok = false; r.cls = "degree-vs-radian"; r.msg = "degree entry point and radian entry point disagree on raising an error"; return r; }
  if (t1) { r.skipped = true; return r; }
  const auto & a = ed.get_particles(); const auto & b = er.get_particles();
  for (size_t i = 0; i < a.size(); i++) {
    V3 x = mom(a[i]), y = mom(b[i]); double n = norm(x);
    if (std::fabs(x.x - y.x) > 1e-9 * n + 1e-15 || std::fabs(x.y - y.y) > 1e-9 * n + 1e-15 || std::fabs(x.z - y.z) > 1e-9 * n + 1e-15) {
      r.ok = false; r.cls = "degree-vs-radian"; r.msg = "degree-based configuration yields a different event than the radian entry point with the same angles (particle " + std::to_string(i) + "): the two entry points do not describe the same cone/window"; return r;
    }
  }
  if (r1.pos != r2.pos) { r.ok = false; r.cls = "degree-vs-radian"; r.msg = "entry points consume different numbers of deviates"; }
  r.nt = std::string("deg-vs-rad|") + (c0.rect() ? "rect" : "circ");
  return r;
}

static Case gen_case(uint64_t h)
{
  Rng r(h); Case c;
  static const std::vector<std::string> bkg = catalog::background_published();
  c.synthetic = r.chance(0.7);
  if (!c.synthetic) {
    if (r.chance(0.7)) { c.kind = "bkg"; c.name = r.pick(bkg); }
    else { static const struct { const char * n; int l, m; } d[] = {{"Mo100", 0, 1}, {"Mo100", 3, 3}, {"Nd150", 0, 20}, {"Cd106", 0, 9}, {"Se82", 0, 2}, {"Ru96", 0, 12}, {"Rn222", 0, 1}, {"Ge76", 3, 3}}; int k = r.range(0, 7); c.kind = "dbd"; c.name = d[k].n; c.level = d[k].l; c.mode = d[k].m; }
  }
  c.evseed = r.next() % 1000000; c.opseed = r.next();
  c.ep = r.range(0, 4);
  static const int codes[] = {0, 1, 3, 2, 47, 13}; c.code = codes[r.range(0, 5)];
  if (c.ep != 0 && c.code == 13 && false) c.code = 0;
  c.rank = r.range(-1, 5); if (r.chance(0.4)) c.rank = r.range(-1, 1);
  c.err_missing = r.chance(0.3);
  // axis incl. poles and +-x, +-y
  int as = r.range(0, 9);
  if (as == 0) { c.theta = 0; c.phi = r.uniform(0, 2 * M_PI); } else if (as == 1) { c.theta = M_PI; c.phi = (c.ep == 0 || c.ep == 2 || c.ep == 4) ? r.uniform(-M_PI, M_PI) : 0; } // -Z pole: with the angle entry points the longitude still orients the rectangular window (the vector entry points cannot express it)
  else if (as == 2) { c.theta = M_PI / 2; c.phi = (M_PI / 2) * r.range(0, 3); }
  else { c.theta = std::acos(r.uniform(-1, 1)); c.phi = r.uniform(-M_PI, M_PI); }
  c.axis_scale = (c.ep == 1 || c.ep == 3) ? std::pow(10.0, r.uniform(-3, 3)) : 1.0;
  bool rect = (c.ep == 3 || c.ep == 4) || (c.ep == 0 && r.chance(0.5));
  if (rect) { c.ap1 = r.uniform(0.01, M_PI / 2 - 0.01); c.ap2 = r.uniform(0.01, M_PI / 2 - 0.01); if (r.chance(0.3)) c.ap2 = c.ap1 * r.uniform(0.05, 0.5); 
    // slit windows: one half-angle 1e-3 .. 0.03 rad against a wide other one - the window then covers 0.1-2% of its envelope cone, so the
    // direction is found after hundreds to ~1000 rejected draws (2 deviates each; the 200000-deviate bound is 80x the mean of the slowest)
    if (r.chance(0.25)) { double slit = std::pow(10.0, r.uniform(-3, -1.5)); if (r.chance(0.5)) c.ap1 = slit; else c.ap2 = slit; } }
  else { int k = r.range(0, 5); c.ap1 = k == 0 ? 0.0 : (k == 1 ? M_PI * (1 - std::pow(10.0, r.uniform(-9, -2))) : (k == 2 ? std::pow(10.0, r.uniform(-9, -1)) : r.uniform(0, M_PI * 0.999))); c.ap2 = -1; }
  if (r.chance(0.35)) c.prior = 1 + r.next() % 1000000007ULL;
  if (r.chance(0.4)) c.prior_ev = 1 + r.next() % 1000000007ULL;
  c.derive();
  return c;
}

int main(int argc, char ** argv)
{
  Args a(argc, argv);
  Report rep; rep.prop = "C10"; Known known; if (a.has("known")) known.load(a.s("known"));
  std::string replaydir = a.s("replaydir", "replay");
  bool crumbs = a.has("breadcrumb"); std::string curfile = a.s("out", "report.json") + ".cur";
  int out_fd = dup(1); silence_stdio(true, !crumbs); // the op prints every momentum on std::cerr in target mode (muted below); a sanitizer run keeps fd 2 for the report
  static std::ofstream devnull("/dev/null"); std::cerr.rdbuf(devnull.rdbuf()); std::clog.rdbuf(devnull.rdbuf());
  FILE * res = fdopen(out_fd, "w");
  if (a.has("replay")) {
    JV j = jload(a.s("replay")); Case c = Case::from(j.at("case")); Res r = j.has("metamorphic") ? check_degree_vs_radian(c) : check_case(c);
    dprintf(out_fd, r.ok ? "REPLAY-PASS\n" : "REPLAY-FAIL class=%s %s\n", r.cls.c_str(), r.msg.c_str()); return r.ok ? 0 : 1;
  }
  uint64_t seed = a.i("seed", 1); int shard = a.i("shard", 0), nsh = a.i("nshards", 1); long long cases = a.i("cases", 200000);
  std::map<std::string, int> per;
  try {
    for (long long k = shard; k < cases; k += nsh) {
      Case c = gen_case(mix(mix(seed, 0xC10), k));
      bool meta = (k % 5 == 0);
      if (crumbs) { // written before the case runs, so that a sanitizer abort leaves the reproducer behind
        FILE * f = fopen(curfile.c_str(), "w");
        if (f) { std::string js = "{\"property\":\"C08\",\"driver\":\"mdlcheck\",\"cfgsig\":\"mdl:ep" + std::to_string(c.ep) + ":" + (c.synthetic ? std::string("synthetic") : c.name) + ":rank" + std::to_string(std::min(c.rank, 1)) + "\",\"case\":" + c.json() + (meta ? ",\"metamorphic\":true" : "") + "}\n"; fwrite(js.data(), 1, js.size(), f); fclose(f); }
      }
      Res r = meta ? check_degree_vs_radian(c) : check_case(c);
      rep.evaluations++;
      if (r.skipped) { rep.count("refused_by_entry_point"); continue; }
      rep.label(std::string("ep") + std::to_string(meta ? 0 : c.ep) + (c.synthetic || meta ? ":synthetic" : ":real"));
      if (!r.ok) {
        std::string sig = "C10|ep" + std::to_string(meta ? 0 : c.ep) + "|" + r.cls;
        std::string kid = known.match("C10", sig);
        if (!kid.empty()) { rep.known[kid]++; continue; }
        if (per[sig]++) { rep.count("further_failures_same_class"); continue; }
        // shrink a little: simpler event seed / rank / code while the same class fails
        Case best = c;
        for (int t = 0; t < 60; t++) { Case c2 = best; Rng rr(mix(k, t)); int w = rr.range(0, 3); if (w == 0) c2.evseed = rr.range(0, 20); else if (w == 1) c2.rank = std::max(-1, best.rank - 1); else if (w == 2) { c2.theta = std::round(best.theta * 10) / 10; c2.phi = std::round(best.phi * 10) / 10; c2.derive(); } else { c2.ap1 = std::round(best.ap1 * 100) / 100; if (best.rect()) { c2.ap2 = std::round(best.ap2 * 100) / 100; if (c2.ap1 < 1e-3) c2.ap1 = best.ap1; if (c2.ap2 < 1e-3) c2.ap2 = best.ap2; /* stay inside the domain: half-angle 0 is excluded */ } }
          Res r2 = meta ? check_degree_vs_radian(c2) : check_case(c2); if (!r2.ok && r2.cls == r.cls) { best = c2; r = r2; } }
        std::string path = replaydir + "/C10-" + hash_name(sig + best.json()) + ".json";
        std::ofstream(path) << "{\"property\":\"C10\",\"case\":" << best.json() << (meta ? ",\"metamorphic\":true" : "") << ",\"sig\":" << jstr(sig) << ",\"msg\":" << jstr(r.msg) << "}\n";
        rep.failures.push_back({sig, r.msg, path});
        continue;
      }
      if (!r.nt.empty()) rep.nt("ep" + std::to_string(meta ? 0 : c.ep) + "|" + r.nt + (c.prior && !meta ? "|reconfigured" : ""));
      if (c.prior && !meta) rep.label("op-object-reconfigured");
      if (rep.samples.size() < 5 && k % 1013 == 0) rep.sample(c.json());
    }
  } catch (std::exception & e) { fprintf(res, "HARNESS-ERROR %s\n", e.what()); fflush(res); return 2; }
  rep.write(a.s("out", "report.json"));
  fprintf(res, "done evaluations=%llu failures=%zu\n", (unsigned long long)rep.evaluations, rep.failures.size()); fflush(res);
  return 0;
}
