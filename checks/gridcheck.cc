// gridcheck.cc -- C06: accept/reject frontier, enumerated completely.
// Grid: (51 published isotopes + names both sides must refuse) x levels -1..17 x modes 0..25 x window kinds
// {none, valid, inverted, on a non-capable mode}, through genbbsub (plumbing) and decay0_generator (porcelain).
// Oracle: ier of the Fortran reference for modes 1..20 + the documented BxDecay0 rules as an explicit table.
#define GENCHECK_NO_MAIN
#include "gencheck.cc"
#include "../ref/refshim.hpp"

static const char * UNKNOWN_NAMES[] = {"Xx100", "Zz1", "Mo101", "Ca47", "Nd151", "U238", ""};
static bool ga_isotope(const std::string & n) { return n == "Se82" || n == "Mo100" || n == "Cd116" || n == "Nd150"; }

static int ref_ier(const std::string & name, int level, int mode)
{
  ref::Lib & R = ref::strict();
  R.restore(0); R.set_params(0.0, 4.3); double nme[7] = {1, 1, 1, 1, 1, 1, 1}; R.set_nme(nme);
  Tape t; t.seed = 77; TapeRandom r(t, 0, 200000); ref::g_rnd = &r; R.clear_event();
  try { return R.call(1, name, level, mode, -1); } catch (TapeOverrun &) { return -2; }
}

struct GridCtx { Ctx * cx; uint64_t seed; int shots; };

static void grid_fail(Ctx & cx, const std::string & name, int level, int mode, const std::string & win, const std::string & layer, const std::string & cls, const std::string & msg)
{
  std::string sig = "C06|" + name + "|L" + std::to_string(level) + "|M" + std::to_string(mode) + "|" + win + "|" + layer + "|" + cls;
  std::string kid = cx.known.match("C06", sig);
  if (!kid.empty()) { cx.rep.known[kid]++; return; }
  std::string path = cx.replaydir + "/C06-" + hash_name(sig) + ".json";
  std::ofstream(path) << "{\"property\":\"C06\",\"grid_point\":{\"name\":" << jstr(name) << ",\"level\":" << level << ",\"mode\":" << mode << ",\"window\":" << jstr(win) << ",\"layer\":" << jstr(layer) << "},\"sig\":" << jstr(sig) << ",\"msg\":" << jstr(msg) << "}\n";
  cx.rep.failures.push_back({sig, msg, path});
}

// returns 1 accepted, 0 rejected (ier or exception)
static int port_plumbing(const std::string & name, int level, int mode, std::string & why)
{
  bxdecay0::bbpars pars; bxdecay0::event ev; int ier = 0; Tape t; t.seed = 78; TapeRandom r(t, 0, 200000);
  try { bxdecay0::genbbsub(r, ev, bxdecay0::GENBBSUB_I2BBS_DBD, name, level, mode, bxdecay0::GENBBSUB_ISTART_INIT, ier, pars); }
  catch (TapeOverrun &) { why = "init exceeds 200000 deviates"; return -2; }
  catch (std::exception & e) { why = e.what(); return 0; }
  if (ier != 0) { why = "ier=" + std::to_string(ier); return 0; }
  return 1;
}

// available energy for the leptons (MeV) from the reference table; <=0 if unknown
static double e0_of(const std::string & name, int level, int mode)
{
  auto it = REF_DBD.find(name);
  if (it == REF_DBD.end() || level < 0 || level >= (int)it->second.levelE.size()) return -1;
  const RefDbd & d = it->second; double El = d.levelE[level] / 1000.0;
  double e0 = d.Z >= 0 ? d.Q - El : d.Q - El - 4 * EMASS;
  if (mode == 9 || mode == 10) e0 = d.Q - El - d.EK[level] - 2 * EMASS;
  if (mode == 11 || mode == 12) e0 = d.Q - El - 2 * d.EK[level];
  return e0;
}
static void check_point(GridCtx & gc, const std::string & name, int level, int mode, bool published)
{
  Ctx & cx = *gc.cx;
  // ---- oracle
  int rier = ref_ier(name, level, mode);
  bool ref_ok = (rier == 0);
  // README: quadruple beta only to the ground state; level -1 is never a tabulated level (the reference overwrites ilevel for mode 20)
  bool expect_plumb = ref_ok && level >= 0 && !(mode == 20 && level > 0);
  // ---- plumbing
  std::string why; int pa = port_plumbing(name, level, mode, why);
  cx.rep.evaluations++;
  cx.rep.label(std::string("plumbing:") + (pa == 1 ? "accepted" : "rejected"));
  if (pa == -2) grid_fail(cx, name, level, mode, "none", "genbbsub", "init-unbounded", why);
  else if ((pa == 1) != expect_plumb)
    grid_fail(cx, name, level, mode, "none", "genbbsub", pa == 1 ? "accepts-what-rules-forbid" : "rejects-what-rules-allow", std::string("genbbsub ") + (pa == 1 ? "accepts" : "rejects (" + why + ")") + " but reference ier=" + std::to_string(rier) + (mode == 20 && level > 0 ? " and README restricts mode 20 to the ground state" : ""));
  cx.rep.nt("p|" + name + "|" + std::to_string(level) + "|" + std::to_string(mode));
  // ---- porcelain, four window kinds
  static const char * wk[] = {"none", "valid", "inverted", "equal", "beyond-e0", "emin-only", "emax-only"};
  double e0 = e0_of(name, level, mode); if (!(e0 > 0)) e0 = 1.0;
  double lo = 0.2 * e0, hi = 0.8 * e0;
  for (int w = 0; w < 7; w++) {
    Cfg c; c.kind = "dbd"; c.name = name; c.level = level; c.mode = mode;
    if (w == 5) { c.win = true; c.emin = lo; c.emax = std::numeric_limits<double>::quiet_NaN(); }   // one-sided windows (C++ API: the other bound stays NaN)
    if (w == 6) { c.win = true; c.emin = std::numeric_limits<double>::quiet_NaN(); c.emax = hi; }
    if (w == 1) { c.win = true; c.emin = lo; c.emax = hi; }
    if (w == 2) { c.win = true; c.emin = hi; c.emax = lo; }
    if (w == 3) { c.win = true; c.emin = lo; c.emax = lo; }
    if (w == 4) { c.win = true; c.emin = e0 + 0.1; c.emax = e0 + 0.5; }
    bool capable = window_mode(mode);
    bool legacy = mode >= 1 && mode <= 20;
    bool expect;
    std::string rule;
    if (level < 0) { expect = false; rule = "level -1 is the 'undefined' marker"; }
    else if (legacy) {
      expect = expect_plumb; rule = "reference ier=" + std::to_string(rier);
      if (c.win && !capable) { expect = false; rule += "; window on a mode that does not support one"; }
      if (c.win && capable && w <= 4 && !(c.emin < c.emax)) { expect = false; rule += "; window with min >= max"; }
      if (w == 4 && capable) { expect = false; rule += "; window entirely above the available energy"; }
    } else if (mode >= 21 && mode <= 24) {
      expect = published && ga_isotope(name) && level == 0 && !c.win; rule = "gA modes only for Se82/Mo100/Cd116/Nd150 ground states";
      if (expect && !getenv("BXDECAY0_DBD_GA_DATA_DIR")) continue; // positive gA points need a data set (exercised in C14)
    } else { expect = false; rule = "mode outside 1..24"; }
    GenRun gr; init_gen(gr, c, mix(gc.seed, std::hash<std::string>()(c.key())));
    cx.rep.evaluations++;
    bool acc = gr.accepted;
    std::string wname = c.win && !capable && legacy ? std::string(wk[w]) + "-on-noncapable" : wk[w];
    cx.rep.label(std::string("porcelain:") + (acc ? "accepted" : "rejected") + ":" + wname);
    if (gr.reject == "init-overrun") { grid_fail(cx, name, level, mode, wname, "decay0_generator", "init-unbounded", "initialisation exceeds the deviate budget"); continue; }
    if (acc != expect) {
      grid_fail(cx, name, level, mode, wname, "decay0_generator", acc ? "accepts-what-rules-forbid" : "rejects-what-rules-allow", std::string("decay0_generator::initialize ") + (acc ? "accepts" : "rejects (" + gr.reject + ")") + "; rule: " + rule);
      if (!acc) continue;
    }
    cx.rep.nt("g|" + c.key());
    if (cx.rep.samples.size() < 6 && (std::hash<std::string>()(c.key()) % 4001) == 0) cx.rep.sample("{\"grid_point\":" + c.json() + ",\"window_kind\":" + jstr(wname) + ",\"reference_ier\":" + std::to_string(rier) + ",\"rule\":" + jstr(rule) + ",\"expected_accept\":" + (expect ? "true" : "false") + ",\"observed_accept\":" + (acc ? "true" : "false") + "}");
    if (!acc) {
      // a rejected request never yields events
      bxdecay0::event ev; Tape t; t.seed = 5; TapeRandom r(t, 0, DEV_LIMIT); bool threw = false;
      try { gr.g->shoot(r, ev); } catch (std::exception &) { threw = true; }
      if (!threw) grid_fail(cx, name, level, mode, wname, "decay0_generator", "rejected-but-shoots", "shoot() after a failed initialize() does not raise an error");
      if (gr.g->is_initialized()) grid_fail(cx, name, level, mode, wname, "decay0_generator", "rejected-but-initialized", "is_initialized() is true after a failed initialize()");
      continue;
    }
    if (mode < 1 || mode > 24) continue;
    // an accepted request always yields events satisfying C03/C04
    std::vector<double> dict = dict_for(c); double qmax = qmax_for(c); bxdecay0::event ev;
    Cfg ceff = c; if (c.win && !capable) ceff.win = false;
    g_shot_limit = DEV_LIMIT; if (c.win) { double ta = gr.g->get_to_all_events(); if (ta > 1.0) g_shot_limit = (size_t)(DEV_LIMIT * std::min(ta, 500.0)); }
    for (int k = 0; k < gc.shots; k++) {
      Tape tape; tape.seed = mix(gr.itape.seed, 100 + k); tape.prof = profile_for(splitmix64(tape.seed), false); tape.dict = &dict;
      size_t used = 0; std::string save = cx.prop; cx.prop = "C03"; Res r = shoot_and_check(cx, ceff, *gr.g, tape, used, ev, qmax); cx.prop = save;
      cx.rep.evaluations++;
      if (!r.ok) { grid_fail(cx, name, level, mode, wname, "decay0_generator", "accepted-but-bad-event:" + r.cls, r.msg); break; }
    }
  }
}

static void label_roundtrips(Ctx & cx)
{
  auto lm = catalog::lis_modes();
  for (int m = 1; m <= 24; m++) {
    cx.rep.evaluations++;
    std::string lab;
    try { lab = bxdecay0::dbd_mode_label((bxdecay0::dbd_mode_type)m); } catch (std::exception & e) { grid_fail(cx, "label", 0, m, "-", "bb_utils", "label-throws", e.what()); continue; }
    if (bxdecay0::dbd_mode_from_label(lab) != (bxdecay0::dbd_mode_type)m) grid_fail(cx, "label", 0, m, "-", "bb_utils", "label-roundtrip", "mode " + std::to_string(m) + " -> '" + lab + "' does not map back");
    if (!lm.count(m) || lm[m].first != lab) grid_fail(cx, "label", 0, m, "-", "bb_utils", "label-vs-lis", "label of mode " + std::to_string(m) + " differs from dbd_modes.lis");
    // two modes never share a label
    for (int m2 = m + 1; m2 <= 24; m2++) if (bxdecay0::dbd_mode_label((bxdecay0::dbd_mode_type)m2) == lab) grid_fail(cx, "label", 0, m, "-", "bb_utils", "label-shared", "modes " + std::to_string(m) + " and " + std::to_string(m2) + " share label " + lab);
    // porcelain: setting by label selects that mode
    G g; g.set_decay_dbd_mode_by_label(lab);
    if ((int)g.get_decay_dbd_mode() != m) grid_fail(cx, "label", 0, m, "-", "decay0_generator", "set-by-label", "set_decay_dbd_mode_by_label('" + lab + "') selects mode " + std::to_string((int)g.get_decay_dbd_mode()));
    cx.rep.nt("label|" + std::to_string(m));
  }
  static const char * bad[] = {"", "nope", "2NUBB", "2nubb ", "0nubb", "0nu4b_", "21"};
  for (auto b : bad) {
    cx.rep.evaluations++;
    if (bxdecay0::dbd_mode_from_label(b) != bxdecay0::DBDMODE_UNDEF) grid_fail(cx, "label", 0, 0, "-", "bb_utils", "unknown-label-accepted", std::string("unknown label '") + b + "' maps to a mode");
    G g; g.set_decay_category(G::DECAY_CATEGORY_DBD); g.set_decay_isotope("Mo100"); g.set_decay_dbd_level(0);
    bool threw = false; try { g.set_decay_dbd_mode_by_label(b); Tape t; t.seed = 3; TapeRandom r(t); g.initialize(r); } catch (std::exception &) { threw = true; }
    if (!threw) grid_fail(cx, "label", 0, 0, "-", "decay0_generator", "unknown-label-initialises", std::string("unknown label '") + b + "' initialises");
    cx.rep.nt(std::string("badlabel|") + b);
  }
}

int main(int argc, char ** argv)
{
  Args a(argc, argv);
  Ctx cx; cx.prop = "C06"; cx.rep.prop = "C06"; cx.replaydir = a.s("replaydir", "replay");
  if (a.has("known")) cx.known.load(a.s("known"));
  int out_fd = dup(1); silence_stdio(true, false);
  static std::ofstream devnull("/dev/null");
  if (!a.has("verbose")) { std::cerr.rdbuf(devnull.rdbuf()); std::clog.rdbuf(devnull.rdbuf()); }
  FILE * res = fdopen(out_fd, "w");
  int shard = a.i("shard", 0), nsh = a.i("nshards", 1);
  GridCtx gc{&cx, (uint64_t)a.i("seed", 1), (int)a.i("shots", 5)};
  try {
    std::vector<std::pair<std::string, bool>> names;
    for (auto & n : catalog::dbd_published()) names.push_back({n, true});
    for (auto u : UNKNOWN_NAMES) names.push_back({u, false});
    size_t item = 0;
    for (auto & nm : names) for (int level = -1; level <= 17; level++) for (int mode = 0; mode <= 25; mode++) {
      if ((item++ % nsh) != (size_t)shard) continue;
      check_point(gc, nm.first, level, mode, nm.second);
    }
    if (shard == 0) label_roundtrips(cx);
    cx.rep.counters["grid_names"] = names.size();
  } catch (std::exception & e) { fprintf(res, "HARNESS-ERROR %s\n", e.what()); fflush(res); return 2; }
  cx.rep.write(a.s("out", "report.json"));
  fprintf(res, "done evaluations=%llu failures=%zu\n", (unsigned long long)cx.rep.evaluations, cx.rep.failures.size()); fflush(res);
  return 0;
}
