// proto.cc -- C09: the configure/initialise/shoot/reset protocol of decay0_generator as a state machine.
//
//  (a) exhaustive enumeration of all call sequences over an alphabet of abstract calls up to a fixed length
//  (b) rapidcheck-generated longer sequences (whole-sequence shrinking)
//
// Oracle: an explicit model of the configuration fields + protocol rules written from decay0_generator.h; the outcome
// of initialize() for a given configuration is the outcome on a FRESH instance with the same fields (C06 decides
// whether a fresh instance accepts the right configurations), and events after a successful initialize() must be
// bit-identical to the fresh instance's on the same tape ("after reset indistinguishable from a new one").
//
// Quadrature is stubbed (gsl_integration_qng interposed from this executable) so that an initialise costs microseconds.
#include <cmath>
#include <filesystem>
#include <fstream>
#include <sstream>
#include <iostream>
#include <memory>
#include <unistd.h>
#include <gsl/gsl_integration.h>
#include <rapidcheck.h>

#include <bxdecay0/decay0_generator.h>
#include <bxdecay0/mdl_event_op.h>
#include "../engine/vf.hpp"

using namespace vf;
typedef bxdecay0::decay0_generator G;

// ---- interposed quadrature: deterministic, cheap; only the protocol is under test here
extern "C" int gsl_integration_qng(const gsl_function * f, double a, double b, double, double, double * result, double * abserr, size_t * neval)
{
  double m = 0.5 * (a + b); *result = (b - a) * GSL_FN_EVAL(f, m); *abserr = 0; *neval = 1; return 0;
}

// ------------------------------------------------------------------ alphabet
enum Call
{
  CAT_DBD, CAT_BKG, ISO_MO100, ISO_CO60, ISO_UNKNOWN, LEV_0, LEV_1, LEV_9, MODE_1, MODE_4, MODE_8, MODE_20, MODE_21,
  LABEL_2NUBB, LABEL_BAD, ESUM_OK, ESUM_INV, ESUM_NONE, ESUM_LO, ESUM_HI, ESUM_ABOVE, ADD_OP, ADD_NULL, INIT, SHOOT, RESET, RECREATE, VERSION, NCALLS
};
static const char * CALL_NAME[] = {"set_decay_category(DBD)", "set_decay_category(BACKGROUND)", "set_decay_isotope(Mo100)", "set_decay_isotope(Co60)", "set_decay_isotope(Xx1)",
  "set_decay_dbd_level(0)", "set_decay_dbd_level(1)", "set_decay_dbd_level(9)", "set_decay_dbd_mode(1)", "set_decay_dbd_mode(4)", "set_decay_dbd_mode(8)", "set_decay_dbd_mode(20)", "set_decay_dbd_mode(21)",
  "set_decay_dbd_mode_by_label(2nubb)", "set_decay_dbd_mode_by_label(nope)", "set_decay_dbd_esum_range(0.5,2.0)", "set_decay_dbd_esum_range(2.0,0.5)", "set_decay_dbd_esum_range(NaN,NaN)", "set_decay_dbd_esum_range(1.0,NaN)", "set_decay_dbd_esum_range(NaN,2.5)", "set_decay_dbd_esum_range(5.0,6.0)", "add_operation(mdl)", "add_operation(null)",
  "initialize", "shoot", "reset", "destroy+recreate", "set_decay_version(x)"};

struct Model
{
  bool init = false; bool init_attempted = false; int cat = 0; std::string iso, ver; int level = -1; int mode = 0; double emin = NAN, emax = NAN; int nops = 0; size_t count = 0;
  void defaults() { cat = 0; iso = ""; ver = ""; level = -1; mode = 0; emin = emax = NAN; }
};

static bxdecay0::event_op_ptr make_op()
{
  auto op = std::make_shared<bxdecay0::momentum_direction_lock_event_op>();
  op->set(bxdecay0::INVALID_PARTICLE, 0, 0.3, 0.7, 0.4, false);
  return op;
}

static void apply_config(G & g, const Model & m)
{
  if (m.cat) g.set_decay_category((G::decay_category_type)m.cat);
  if (!m.iso.empty()) g.set_decay_isotope(m.iso);
  if (!m.ver.empty()) g.set_decay_version(m.ver);
  if (m.level != -1) g.set_decay_dbd_level(m.level);
  if (m.mode) g.set_decay_dbd_mode((bxdecay0::dbd_mode_type)m.mode);
  if (!(std::isnan(m.emin) && std::isnan(m.emax))) g.set_decay_dbd_esum_range(m.emin, m.emax);
  for (int i = 0; i < m.nops; i++) g.add_operation(make_op());
}

// outcome of initialize() on a fresh instance configured with the model's fields
static bool fresh_accepts(const Model & m, uint64_t itseed)
{
  G g; apply_config(g, m); Tape t; t.seed = itseed; TapeRandom r(t, 0, 100000);
  try { g.initialize(r); } catch (std::exception &) { return false; }
  return true;
}

// Independent statement of which configurations of THIS alphabet an initialize() must accept, written from the header documentation, the README
// (appendix: Mo100 -> Ru100 levels 0+ g.s. / 2+ 540 keV; modes 1 and 4 to 0+ levels, mode 8 to 2+ levels; 0nu4b only for Zr96/Xe136/Nd150; gA modes need
// the optional data sets, which are not installed here; energy range only on the modes that support one, min < max, below the available energy) - so that
// "refuses initialisation from an incomplete or invalid configuration" does not rest on the implementation's own verdict on a fresh instance.
static bool rules_accept(const Model & m)
{
  if (m.cat == 2) return m.iso == "Co60";           // background: level / mode / energy range do not apply
  if (m.cat != 1) return false;                      // no category
  if (m.iso != "Mo100") return false;                // missing, unknown, or a background nuclide requested as double beta
  if (m.mode == 0 || m.level == -1) return false;    // incomplete
  bool any_bound = !std::isnan(m.emin) || !std::isnan(m.emax);
  bool capable = m.mode == 4 || m.mode == 8;
  if (m.mode == 20 || m.mode == 21) return false;    // 0nu4b: not Mo100; gA: no data set installed
  if (m.level == 0 && m.mode == 8) return false;     // 2nubb 0+ -> 2+ to a 0+ level
  if (m.level == 1 && (m.mode == 1 || m.mode == 4)) return false; // 0+ -> 0+ modes to the 2+ level
  if (m.level == 9) return false;                    // no such level
  if (any_bound && !capable) return false;
  if (any_bound) {
    double lo = std::isnan(m.emin) ? 0.0 : m.emin, hi = std::isnan(m.emax) ? 4.3 : m.emax;
    if (!(lo < hi)) return false;
    double avail = 3.034 - (m.level == 1 ? 0.540 : 0.0);
    if (lo >= avail) return false;
  }
  return true;
}

struct PFail { std::string cls, msg; int step; };

static bool same_event(const bxdecay0::event & a, const bxdecay0::event & b)
{
  if (a.get_generator() != b.get_generator()) return false;
  if (!((a.get_time() == b.get_time()) || (std::isnan(a.get_time()) && std::isnan(b.get_time())))) return false;
  const auto & pa = a.get_particles(); const auto & pb = b.get_particles();
  if (pa.size() != pb.size()) return false;
  for (size_t i = 0; i < pa.size(); i++) {
    if (pa[i].get_code() != pb[i].get_code()) return false;
    double x[4] = {pa[i].get_px(), pa[i].get_py(), pa[i].get_pz(), pa[i].get_time()}, y[4] = {pb[i].get_px(), pb[i].get_py(), pb[i].get_pz(), pb[i].get_time()};
    if (memcmp(x, y, sizeof x)) return false;
  }
  return true;
}

struct Stats { uint64_t steps = 0, rejected_calls = 0, ok_inits = 0, failed_inits = 0, shoots = 0, resets = 0; };

// runs a sequence against the implementation and the model; returns true if everything agreed
static bool run_sequence(const std::vector<int> & seq, PFail & f, Stats & st, bool & had_reject, bool & had_ok_init)
{
  std::unique_ptr<G> g(new G); Model m; had_reject = false; had_ok_init = false;
  uint64_t itseed = 1234567, shot = 0;
  auto fail = [&](int step, const std::string & cls, const std::string & msg) { f.cls = cls; f.msg = msg; f.step = step; return false; };
  for (size_t k = 0; k < seq.size(); k++) {
    int c = seq[k]; st.steps++;
    bool expect_throw = false; bool threw = false; std::string what;
    Model next = m;
    bool is_setter = c <= ESUM_ABOVE || c == VERSION;
    if (is_setter) {
      expect_throw = m.init;
      if (!expect_throw) switch (c) {
      case CAT_DBD: next.cat = 1; break; case CAT_BKG: next.cat = 2; break;
      case ISO_MO100: next.iso = "Mo100"; break; case ISO_CO60: next.iso = "Co60"; break; case ISO_UNKNOWN: next.iso = "Xx1"; break;
      case LEV_0: next.level = 0; break; case LEV_1: next.level = 1; break; case LEV_9: next.level = 9; break;
      case MODE_1: next.mode = 1; break; case MODE_4: next.mode = 4; break; case MODE_8: next.mode = 8; break; case MODE_20: next.mode = 20; break; case MODE_21: next.mode = 21; break;
      case LABEL_2NUBB: next.mode = 4; break; case LABEL_BAD: next.mode = 0; break;
      case ESUM_OK: next.emin = 0.5; next.emax = 2.0; break; case ESUM_INV: next.emin = 2.0; next.emax = 0.5; break;
      case ESUM_NONE: next.emin = next.emax = NAN; break; case ESUM_LO: next.emin = 1.0; next.emax = NAN; break; case ESUM_HI: next.emin = NAN; next.emax = 2.5; break; case ESUM_ABOVE: next.emin = 5.0; next.emax = 6.0; break;
      case VERSION: next.ver = "x"; break;
      }
    }
    bxdecay0::event ev;
    try {
      switch (c) {
      case CAT_DBD: g->set_decay_category(G::DECAY_CATEGORY_DBD); break;
      case CAT_BKG: g->set_decay_category(G::DECAY_CATEGORY_BACKGROUND); break;
      case ISO_MO100: g->set_decay_isotope("Mo100"); break;
      case ISO_CO60: g->set_decay_isotope("Co60"); break;
      case ISO_UNKNOWN: g->set_decay_isotope("Xx1"); break;
      case LEV_0: g->set_decay_dbd_level(0); break;
      case LEV_1: g->set_decay_dbd_level(1); break;
      case LEV_9: g->set_decay_dbd_level(9); break;
      case MODE_1: g->set_decay_dbd_mode(bxdecay0::DBDMODE_1); break;
      case MODE_4: g->set_decay_dbd_mode(bxdecay0::DBDMODE_4); break;
      case MODE_8: g->set_decay_dbd_mode(bxdecay0::DBDMODE_8); break;
      case MODE_20: g->set_decay_dbd_mode(bxdecay0::DBDMODE_20); break;
      case MODE_21: g->set_decay_dbd_mode(bxdecay0::DBDMODE_21); break;
      case LABEL_2NUBB: g->set_decay_dbd_mode_by_label("2nubb"); break;
      case LABEL_BAD: g->set_decay_dbd_mode_by_label("nope"); break;
      case ESUM_OK: g->set_decay_dbd_esum_range(0.5, 2.0); break;
      case ESUM_INV: g->set_decay_dbd_esum_range(2.0, 0.5); break;
      case ESUM_NONE: g->set_decay_dbd_esum_range(NAN, NAN); break;
      case ESUM_LO: g->set_decay_dbd_esum_range(1.0, NAN); break;
      case ESUM_HI: g->set_decay_dbd_esum_range(NAN, 2.5); break;
      case ESUM_ABOVE: g->set_decay_dbd_esum_range(5.0, 6.0); break;
      case VERSION: g->set_decay_version("x"); break;
      case ADD_OP: expect_throw = m.init; if (!expect_throw) next.nops++; g->add_operation(make_op()); break;
      case ADD_NULL: expect_throw = true; g->add_operation(bxdecay0::event_op_ptr()); break;
      case INIT: {
        bool acc = !m.init && fresh_accepts(m, itseed);
        if (!m.init && acc != rules_accept(m))
          return fail((int)k, acc ? "fresh-instance-accepts-what-rules-forbid" : "fresh-instance-refuses-what-rules-allow", std::string("initialize() on a newly constructed generator configured with category=") + std::to_string(m.cat) + " isotope='" + m.iso + "' level=" + std::to_string(m.level) + " mode=" + std::to_string(m.mode) + " range=(" + jnum(m.emin) + "," + jnum(m.emax) + ") " + (acc ? "succeeds, the documented rules forbid this configuration" : "is refused, the documented rules allow this configuration"));
        expect_throw = !acc; m.init_attempted = true; next.init_attempted = true;
        if (acc) { next.init = true; next.count = 0; if (next.ver.empty()) next.ver = "<lib>"; }
        Tape t; t.seed = itseed; TapeRandom r(t, 0, 100000);
        g->initialize(r);
        break;
      }
      case SHOOT: {
        expect_throw = !m.init;
        Tape t; t.seed = mix(99, shot); TapeRandom r(t, 0, 100000);
        g->shoot(r, ev);
        if (m.init) next.count++;
        break;
      }
      case RESET: g->reset(); st.resets++; next = Model(); break;
      case RECREATE: g.reset(new G); next = Model(); break;
      }
    } catch (std::exception & e) { threw = true; what = e.what(); }
    if (threw != expect_throw) {
      return fail((int)k, threw ? "unexpected-refusal" : "missing-refusal", std::string(CALL_NAME[c]) + (threw ? " raised '" + what + "' but the protocol allows it here" : " did not raise an error but the protocol requires one") + " (step " + std::to_string(k) + ")");
    }
    if (threw) { had_reject = true; st.rejected_calls++; next = m; if (c == INIT) st.failed_inits++; }
    else if (c == INIT) { st.ok_inits++; had_ok_init = true; }
    // a refused call leaves the object unchanged (model state == previous); compare every getter
    m = next;
    if (c == SHOOT && !threw) {
      // same event as a fresh instance with the same configuration, same init tape, same shot tape
      st.shoots++;
      Model cfg = m; cfg.init = false; if (cfg.ver == "<lib>") cfg.ver = "";
      G f2; apply_config(f2, cfg); Tape it; it.seed = itseed; TapeRandom ri(it, 0, 100000); f2.initialize(ri);
      // bring the fresh instance to the same shot number: each shot uses its own tape, so no catch-up is needed
      bxdecay0::event e2; Tape t; t.seed = mix(99, shot); TapeRandom r(t, 0, 100000); f2.shoot(r, e2);
      if (!same_event(ev, e2)) return fail((int)k, "event-differs-from-fresh", "shoot() after this history yields a different event than a fresh instance with the same configuration and deviates");
      if (m.cat == 1 && !(g->get_to_all_events() == f2.get_to_all_events())) return fail((int)k, "toallevents-differs-from-fresh", "get_to_all_events()=" + jnum(g->get_to_all_events()) + " after this history, a fresh instance with the same configuration reports " + jnum(f2.get_to_all_events()));
      shot++;
    }
    // getters
    G & x = *g;
    std::string where = " after " + std::string(CALL_NAME[c]) + " (step " + std::to_string(k) + ")";
    if (x.is_initialized() != m.init) return fail((int)k, "getter:is_initialized", "is_initialized()=" + std::to_string(x.is_initialized()) + " expected " + std::to_string(m.init) + where);
    if ((int)x.get_decay_category() != m.cat) return fail((int)k, "getter:category", "get_decay_category()=" + std::to_string((int)x.get_decay_category()) + " expected " + std::to_string(m.cat) + where);
    if (x.has_decay_category() != (m.cat != 0) || x.is_dbd() != (m.cat == 1) || x.is_background() != (m.cat == 2)) return fail((int)k, "getter:category-flags", "category predicates inconsistent" + where);
    if (x.get_decay_isotope() != m.iso || x.has_decay_isotope() != !m.iso.empty()) return fail((int)k, "getter:isotope", "get_decay_isotope()='" + x.get_decay_isotope() + "' expected '" + m.iso + "'" + where);
    // a (possibly failed) initialize() may fill in the library version as the decay version: not a protocol matter
    if (!(m.ver.empty() && m.init_attempted) && x.has_decay_version() != !m.ver.empty()) return fail((int)k, "getter:version", "has_decay_version()=" + std::to_string(x.has_decay_version()) + " expected " + std::to_string(!m.ver.empty()) + where);
    if (x.get_decay_dbd_level() != m.level || x.has_decay_dbd_level() != (m.level != -1)) return fail((int)k, "getter:level", "get_decay_dbd_level()=" + std::to_string(x.get_decay_dbd_level()) + " expected " + std::to_string(m.level) + where);
    if ((int)x.get_decay_dbd_mode() != m.mode || x.has_decay_dbd_mode() != (m.mode != 0)) return fail((int)k, "getter:mode", "get_decay_dbd_mode()=" + std::to_string((int)x.get_decay_dbd_mode()) + " expected " + std::to_string(m.mode) + where);
    bool hr = !std::isnan(m.emin) && !std::isnan(m.emax);
    if (x.has_decay_dbd_esum_range() != hr) return fail((int)k, "getter:esum", "has_decay_dbd_esum_range() wrong" + where);
    auto same = [](double u, double v) { return (std::isnan(u) && std::isnan(v)) || u == v; };
    if (!same(x.get_decay_dbd_esum_range_lower(), m.emin) || !same(x.get_decay_dbd_esum_range_upper(), m.emax)) return fail((int)k, "getter:esum", "energy range getters report (" + jnum(x.get_decay_dbd_esum_range_lower()) + "," + jnum(x.get_decay_dbd_esum_range_upper()) + "), expected (" + jnum(m.emin) + "," + jnum(m.emax) + ")" + where);
    if ((int)x.get_operations().size() != m.nops) return fail((int)k, "getter:operations", "get_operations().size()=" + std::to_string(x.get_operations().size()) + " expected " + std::to_string(m.nops) + where);
    if (x.get_event_count() != m.count) return fail((int)k, "getter:event_count", "get_event_count()=" + std::to_string(x.get_event_count()) + " expected " + std::to_string(m.count) + where);
    if (!x.has_next()) return fail((int)k, "getter:has_next", "has_next() is false" + where);
    // the engine's working data seen through the informational getters: while the object is not initialised they report what a newly
    // constructed generator reports (a failed initialisation may have filled them in; reset and re-creation must wipe them)
    if (!m.init && (c == RESET || c == RECREATE || !m.init_attempted)) {
      static const G fresh; const bxdecay0::bbpars & pa = x.get_bb_params(), & pf = fresh.get_bb_params();
      auto same = [](double u, double v) { return (std::isnan(u) && std::isnan(v)) || u == v; };
      if (!same(x.get_to_all_events(), fresh.get_to_all_events())) return fail((int)k, "getter:to_all_events", "get_to_all_events()=" + jnum(x.get_to_all_events()) + ", a new generator reports " + jnum(fresh.get_to_all_events()) + where);
      if (pa.modebb != pf.modebb || pa.istartbb != pf.istartbb || !same(pa.ebb1, pf.ebb1) || !same(pa.ebb2, pf.ebb2) || !same(pa.Qbb, pf.Qbb) || !same(pa.Edlevel, pf.Edlevel) || !same(pa.toallevents, pf.toallevents) || !same(pa.spmax, pf.spmax) || !same(pa.spthe1[0], pf.spthe1[0]) || !same(pa.spthe1[500], pf.spthe1[500]))
        return fail((int)k, "getter:bb_params", "get_bb_params() differs from a new generator's (modebb " + std::to_string(pa.modebb) + "/" + std::to_string(pf.modebb) + ", istartbb " + std::to_string(pa.istartbb) + "/" + std::to_string(pf.istartbb) + ", ebb1 " + jnum(pa.ebb1) + "/" + jnum(pf.ebb1) + ", toallevents " + jnum(pa.toallevents) + "/" + jnum(pf.toallevents) + ")" + where);
    }
  }
  return true;
}

static std::string seq_str(const std::vector<int> & s) { std::string o; for (size_t i = 0; i < s.size(); i++) { if (i) o += " ; "; o += CALL_NAME[s[i]]; } return o; }
static std::string seq_json(const std::vector<int> & s) { std::string o = "["; for (size_t i = 0; i < s.size(); i++) { if (i) o += ","; o += std::to_string(s[i]); } return o + "]"; }

struct Ctx { Report rep; Known known; std::string replaydir; Stats st; std::map<std::string, int> seen; };

static void record(Ctx & cx, std::vector<int> seq, const PFail & f0)
{
  // shrink: drop calls while the same failure class persists
  PFail f = f0;
  bool progress = true;
  while (progress) {
    progress = false;
    for (size_t i = 0; i < seq.size(); i++) {
      std::vector<int> s2 = seq; s2.erase(s2.begin() + i);
      PFail f2; Stats st; bool a, b;
      if (!run_sequence(s2, f2, st, a, b) && f2.cls == f.cls) { seq = s2; f = f2; progress = true; break; }
    }
  }
  std::string sig = "C09|" + f.cls + "|" + seq_str(seq);
  std::string kid = cx.known.match("C09", sig);
  if (!kid.empty()) { cx.rep.known[kid]++; return; }
  if (cx.seen[sig]++) return;
  std::string path = cx.replaydir + "/C09-" + hash_name(sig) + ".json";
  std::ofstream(path) << "{\"property\":\"C09\",\"sequence\":" << seq_json(seq) << ",\"calls\":" << jstr(seq_str(seq)) << ",\"sig\":" << jstr(sig) << ",\"msg\":" << jstr(f.msg) << "}\n";
  cx.rep.failures.push_back({sig, f.msg, path});
}

static void eval(Ctx & cx, const std::vector<int> & seq)
{
  PFail f; bool rej, ok;
  cx.rep.evaluations++;
  bool good = run_sequence(seq, f, cx.st, rej, ok);
  if (!good) { record(cx, seq, f); return; }
  if (rej && ok) cx.rep.nt(seq_json(seq));
  if (rej && ok && cx.rep.samples.size() < 5 && (cx.rep.nontrivial.size() % 7) == 1) cx.rep.sample("{\"calls\":" + jstr(seq_str(seq)) + "}");
}

// ---- (a'') failure recovery through the optional gA data sets (modes 21-24): the data file is external input, and an initialize() that fails INSIDE
// the table loader (a truncated tab_ocdf.data) must leave the generator as usable as any other failed initialisation: once the file is whole again
// the SAME object - re-initialised as it is, after reset() + re-configuration, or switched to another gA mode - yields exactly the events of a newly
// constructed generator.  The data set is a synthetic one written by the repository's own encoder (as in C14); the cut runs over every line start
// and a stride of byte offsets.
static void ga_recovery_pass(Ctx & cx, int shard, int nsh, uint64_t seed)
{
  namespace fs = std::filesystem;
  const char * src = getenv("VERIF_GA_BASE"); if (!src || !*src) { cx.rep.count("ga_recovery_skipped_no_dataset"); return; }
  std::string base = std::string(getenv("VERIF_SCRATCH") ? getenv("VERIF_SCRATCH") : "/dev/shm") + "/vf-c09-ga-" + std::to_string(getpid());
  std::error_code ec; fs::remove_all(base, ec); fs::create_directories(base); fs::copy(src, base, fs::copy_options::recursive, ec);
  if (ec) { cx.rep.count("ga_recovery_skipped_copy_failed"); return; }
  setenv("BXDECAY0_DBD_GA_DATA_DIR", base.c_str(), 1);
  auto slurp = [](const std::string & p) { std::ifstream f(p, std::ios::binary); std::ostringstream o; o << f.rdbuf(); return o.str(); };
  auto spit = [](const std::string & p, const std::string & d) { std::ofstream f(p, std::ios::binary | std::ios::trunc); f << d; };
  static const char * PROC[] = {"g0", "g2", "g22", "g4"};
  auto conf = [](G & g, int mode) { g.set_decay_category(G::DECAY_CATEGORY_DBD); g.set_decay_isotope("Mo100"); g.set_decay_dbd_level(0); g.set_decay_dbd_mode((bxdecay0::dbd_mode_type)mode); };
  auto shots = [](G & g, std::vector<double> & v) { v.clear(); for (int k = 0; k < 12; k++) { bxdecay0::event e; Tape t; t.seed = mix(4242, k); TapeRandom r(t, 0, 100000); g.shoot(r, e); v.push_back((double)r.pos); for (auto & p : e.get_particles()) { v.push_back(p.get_px()); v.push_back(p.get_py()); v.push_back(p.get_pz()); v.push_back(p.get_time()); } } };
  uint64_t item = 0;
  for (int pm = 0; pm < 4; pm++) {
    int mode = 21 + pm; std::string file = base + "/data/dbd_gA/v1.0/Mo100/" + PROC[pm] + "/tab_ocdf.data"; std::string good = slurp(file);
    if (good.size() < 100) { cx.rep.count("ga_recovery_skipped_no_file"); continue; }
    std::vector<double> want; { G f; conf(f, mode); Tape it; it.seed = 5; TapeRandom ri(it, 0, 100000); f.initialize(ri); shots(f, want); }
    std::vector<size_t> cuts; for (size_t i = 0; i < good.size(); i++) if (i == 0 || good[i - 1] == '\n' || i % 23 == (seed % 23)) cuts.push_back(i);
    for (size_t cut : cuts) for (int variant = 0; variant < 3; variant++) {
      if ((item++ % nsh) != (uint64_t)shard) continue;
      cx.rep.evaluations++;
      spit(file, good.substr(0, cut));
      G g; conf(g, mode); bool refused = false;
      { Tape it; it.seed = 5; TapeRandom ri(it, 0, 100000); try { g.initialize(ri); } catch (std::exception &) { refused = true; } }
      spit(file, good);
      if (!refused) { cx.rep.label("ga-recovery:truncated-file-still-loads"); continue; }   // a cut that leaves a loadable file is C15's business
      std::string what; bool ok = true; std::vector<double> got;
      try {
        if (g.is_initialized()) { ok = false; what = "is_initialized() is true after the refused initialize()"; }
        if (ok && variant == 1) { g.reset(); conf(g, mode); }
        if (ok && variant == 2) { int other = 21 + (pm + 1) % 4; g.set_decay_dbd_mode((bxdecay0::dbd_mode_type)other); Tape it; it.seed = 5; TapeRandom ri(it, 0, 100000); g.initialize(ri); bxdecay0::event e; Tape t; t.seed = 9; TapeRandom r(t, 0, 100000); g.shoot(r, e); g.reset(); conf(g, mode); }
        if (ok) { Tape it; it.seed = 5; TapeRandom ri(it, 0, 100000); g.initialize(ri); shots(g, got); }
      } catch (std::exception & e) { ok = false; what = std::string("the retry raised '") + e.what() + "'"; }
      if (ok && (got.size() != want.size() || memcmp(got.data(), want.data(), got.size() * sizeof(double)))) { ok = false; what = "the events after the retry differ from a newly constructed generator's on the same deviates"; }
      static const char * VN[] = {"initialize again", "reset + re-configure + initialize", "another gA mode in between, then reset + re-configure + initialize"};
      if (ok) { cx.rep.nt("ga-recovery|" + std::to_string(mode) + "|" + std::to_string(variant) + "|" + std::to_string(cut * 16 / good.size())); cx.rep.label(std::string("ga-recovery:") + VN[variant]); continue; }
      std::string sig = std::string("C09|ga-failed-initialize-not-recovered|mode ") + std::to_string(mode) + " | " + VN[variant];
      std::string kid = cx.known.match("C09", sig); if (!kid.empty()) { cx.rep.known[kid]++; continue; }
      if (cx.seen[sig]++) continue;
      std::string msg = "Mo100 mode " + std::to_string(mode) + ": initialize() refused a tab_ocdf.data cut after " + std::to_string(cut) + " of " + std::to_string(good.size()) + " bytes; with the whole file back in place (" + VN[variant] + ") " + what;
      std::string path = cx.replaydir + "/C09-" + hash_name(sig) + ".json";
      std::ofstream(path) << "{\"property\":\"C09\",\"ga_recovery\":{\"mode\":" << mode << ",\"cut\":" << cut << ",\"variant\":" << variant << "},\"sig\":" << jstr(sig) << ",\"msg\":" << jstr(msg) << "}\n";
      cx.rep.failures.push_back({sig, msg, path});
    }
  }
  unsetenv("BXDECAY0_DBD_GA_DATA_DIR"); fs::remove_all(base, ec);
}

int main(int argc, char ** argv)
{
  Args a(argc, argv);
  Ctx cx; cx.rep.prop = "C09"; cx.replaydir = a.s("replaydir", "replay");
  if (a.has("known")) cx.known.load(a.s("known"));
  int out_fd = dup(1); silence_stdio(true, false);
  static std::ofstream devnull("/dev/null");
  if (!a.has("verbose")) { std::cerr.rdbuf(devnull.rdbuf()); std::clog.rdbuf(devnull.rdbuf()); }
  FILE * res = fdopen(out_fd, "w");
  int shard = a.i("shard", 0), nsh = a.i("nshards", 1); int maxlen = a.i("maxlen", 4); long long rc_cases = a.i("rc_cases", 300);
  if (a.has("replay")) {
    JV j = jload(a.s("replay"));
    if (j.has("ga_recovery")) { ga_recovery_pass(cx, 0, 1, 1); for (auto & f : cx.rep.failures) dprintf(out_fd, "REPLAY-FAIL class=ga-recovery %s\n", f.msg.c_str()); if (cx.rep.failures.empty()) dprintf(out_fd, "REPLAY-PASS\n"); return cx.rep.failures.empty() ? 0 : 1; }
    std::vector<int> seq; for (auto & e : j.at("sequence").arr) seq.push_back((int)e.num);
    PFail f; Stats st; bool r1, r2; bool good = run_sequence(seq, f, st, r1, r2);
    dprintf(out_fd, good ? "REPLAY-PASS\n" : "REPLAY-FAIL class=%s %s\n", f.cls.c_str(), f.msg.c_str()); return good ? 0 : 1;
  }
  try {
    // (a) exhaustive: all sequences of length 1..maxlen; the first call index selects the shard
    uint64_t total = 0;
    for (int len = 1; len <= maxlen; len++) {
      std::vector<int> seq(len, 0);
      while (true) {
        uint64_t id = total++;
        if ((id % nsh) == (uint64_t)shard) eval(cx, seq);
        int p = len - 1; while (p >= 0 && ++seq[p] == NCALLS) { seq[p] = 0; p--; }
        if (p < 0) break;
      }
    }
    cx.rep.counters["exhaustive_sequences_total"] = total; cx.rep.counters["exhaustive_maxlen"] = maxlen;
    // (a') failure-recovery family, enumerated completely: valid configuration ; one call that spoils it ; initialize (refused) ; the call that
    // repairs it ; EVERY sequence of 0..2 further calls ; initialize ; shoot ; shoot.  (A failed initialisation must leave the object usable and
    // indistinguishable from a fresh one: the depth-4 enumeration is too short to configure, fail, repair and shoot.)
    {
      struct Pre { std::vector<int> calls; int iso, lev, mode; };
      std::vector<Pre> pres;
      for (int w : {-1, (int)ESUM_OK, (int)ESUM_LO, (int)ESUM_HI}) {
        Pre a1{{CAT_DBD, ISO_MO100, LEV_0, MODE_4}, ISO_MO100, LEV_0, MODE_4}, a2{{CAT_DBD, ISO_MO100, LEV_1, MODE_8}, ISO_MO100, LEV_1, MODE_8};
        if (w >= 0) { a1.calls.push_back(w); a2.calls.push_back(w); }
        pres.push_back(a1); pres.push_back(a2);
      }
      pres.push_back(Pre{{CAT_DBD, ISO_MO100, LEV_0, MODE_1}, ISO_MO100, LEV_0, MODE_1});
      pres.push_back(Pre{{CAT_BKG, ISO_CO60}, ISO_CO60, -1, -1});
      // the same with one or two post-generation operations registered BEFORE the refused initialisation (what an initialisation attempt derives from
      // the registered operations must not survive its failure); the operation sits after the category so that pr.calls[0] stays the category
      { std::vector<Pre> withops; for (auto & pr : pres) for (int nops = 1; nops <= 2; nops++) { if (pr.calls.size() == 5) continue; Pre q = pr;   /* (the windowed configurations are left without operations: cost) */ for (int k = 0; k < nops; k++) q.calls.insert(q.calls.begin() + 1, ADD_OP); withops.push_back(q); }
        for (auto & q : withops) pres.push_back(q); }
      uint64_t fam = 0, famrun = 0;
      for (auto & pr : pres) {
        bool dbd = pr.calls[0] == CAT_DBD; int wcall = (int)ESUM_NONE; for (int cc : pr.calls) if (cc == ESUM_OK || cc == ESUM_LO || cc == ESUM_HI) wcall = cc;
        std::vector<std::pair<int, int>> breakers = {{ISO_UNKNOWN, pr.iso}};
        if (dbd) { breakers.push_back({LEV_9, pr.lev}); breakers.push_back({MODE_21, pr.mode}); breakers.push_back({CAT_BKG, CAT_DBD}); breakers.push_back({ESUM_INV, wcall}); breakers.push_back({ESUM_ABOVE, wcall}); }
        for (auto & br : breakers) {
          for (int t1 = -1; t1 < (int)NCALLS; t1++) for (int t2 = -1; t2 < (int)NCALLS; t2++) {
            if (t1 < 0 && t2 >= 0) continue;
            uint64_t id = fam++; if ((id % nsh) != (uint64_t)shard) continue;
            std::vector<int> seq = pr.calls; seq.push_back(br.first); seq.push_back(INIT); seq.push_back(br.second);
            if (t1 >= 0) seq.push_back(t1); if (t2 >= 0) seq.push_back(t2);
            seq.push_back(INIT); seq.push_back(SHOOT); seq.push_back(SHOOT);
            eval(cx, seq); famrun++;
          }
        }
      }
      cx.rep.counters["failure_recovery_sequences_total"] = fam;
      // (a''') re-configuration family, enumerated completely: every ordered pair (A, B) of the valid configurations on ONE object -
      // A ; initialize ; [shoot] ; reset ; B ; initialize ; shoot ; shoot - "after reset ... re-configuring it yields the same events as a fresh instance"
      // (working data of A that reset() or the next initialize() fails to clear - a clamped window bound, a level energy, a table - shows in B's events)
      uint64_t rec = 0;
      for (auto & pa : pres) for (auto & pb : pres) for (int shootA = 0; shootA < 2; shootA++) {
        uint64_t id = rec++; if ((id % nsh) != (uint64_t)shard) continue;
        std::vector<int> seq = pa.calls; seq.push_back(INIT); if (shootA) seq.push_back(SHOOT); seq.push_back(RESET);
        seq.insert(seq.end(), pb.calls.begin(), pb.calls.end()); seq.push_back(INIT); seq.push_back(SHOOT); seq.push_back(SHOOT);
        eval(cx, seq);
      }
      cx.rep.counters["reconfiguration_sequences_total"] = rec;
    }
    // (b) rapidcheck: longer random sequences with whole-sequence shrinking
    uint64_t seed = a.i("seed", 1);
    std::string params = "seed=" + std::to_string(seed * 16 + shard + 1) + " max_success=" + std::to_string(rc_cases) + " max_size=100";
    setenv("RC_PARAMS", params.c_str(), 1);
    uint64_t rc_n = 0, rc_nt = 0; std::vector<int> failing; PFail ff;
    // bias towards sequences that get somewhere: a valid configuration prefix is inserted with probability 1/2
    bool okrc = rc::check("protocol sequences agree with the model", [&]() {
      auto body = *rc::gen::container<std::vector<int>>(rc::gen::resize(100, rc::gen::inRange(0, (int)NCALLS)));
      bool prefix = *rc::gen::arbitrary<bool>();
      int which = *rc::gen::resize(100, rc::gen::inRange(0, 6));
      std::vector<int> seq;
      if (prefix) {
        static const std::vector<std::vector<int>> pre = {{CAT_DBD, ISO_MO100, LEV_0, MODE_1}, {CAT_BKG, ISO_CO60}, {CAT_DBD, ISO_MO100, LEV_1, MODE_8, ESUM_OK}, {CAT_DBD, ISO_MO100, LEV_0, MODE_21, INIT, MODE_1}, {CAT_DBD, ISO_UNKNOWN, LEV_0, MODE_1, INIT, ISO_MO100}, {CAT_DBD, ISO_MO100, LEV_9, MODE_4, ESUM_OK, INIT, LEV_0}};
        seq = pre[which];
      }
      seq.insert(seq.end(), body.begin(), body.end());
      PFail f; bool rej, ok; cx.rep.evaluations++; rc_n++;
      bool good = run_sequence(seq, f, cx.st, rej, ok);
      if (good && rej && ok) { cx.rep.nt(seq_json(seq)); rc_nt++; }
      if (!good) { failing = seq; ff = f; }
      RC_ASSERT(good);
    });
    if (!okrc && !failing.empty()) record(cx, failing, ff);
    cx.rep.counters["rapidcheck_sequences"] = rc_n; cx.rep.counters["rapidcheck_nontrivial"] = rc_nt;
    cx.rep.counters["steps"] = cx.st.steps; cx.rep.counters["rejected_calls"] = cx.st.rejected_calls; cx.rep.counters["successful_inits"] = cx.st.ok_inits;
    cx.rep.counters["failed_inits"] = cx.st.failed_inits; cx.rep.counters["shoots_compared_with_fresh"] = cx.st.shoots; cx.rep.counters["resets"] = cx.st.resets;
    ga_recovery_pass(cx, shard, nsh, a.i("seed", 1));
  } catch (std::exception & e) { fprintf(res, "HARNESS-ERROR %s\n", e.what()); fflush(res); return 2; }
  cx.rep.write(a.s("out", "report.json"));
  fprintf(res, "done evaluations=%llu failures=%zu\n", (unsigned long long)cx.rep.evaluations, cx.rep.failures.size()); fflush(res);
  return 0;
}
