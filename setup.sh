#!/bin/bash
# setup.sh -- build the framework from files on disk only (offline): library variants, Fortran reference, drivers.
set -e
cd "$(dirname "$0")"
python3 - <<'PY'
import sys, os
sys.path.insert(0, 'py')
import vlib, props
props.setup_all()
PY
echo "setup done"
