/* C side of the reference shim: CERNLIB CGAMMA bound to GSL's complex log-gamma
   (the same routine the port uses in decay0_fermi), and a DATIME stub. */
#include <complex.h>
#include <math.h>
#include <gsl/gsl_sf_gamma.h>
#include <gsl/gsl_errno.h>
double _Complex cgamma_(double _Complex * z)
{
  gsl_sf_result lnr, arg;
  int st = gsl_sf_lngamma_complex_e(creal(*z), cimag(*z), &lnr, &arg);
  if (st != GSL_SUCCESS) return NAN;
  return exp(lnr.val) * (cos(arg.val) + I * sin(arg.val));
}
void datime_(int * id, int * it) { *id = 0; *it = 0; }
