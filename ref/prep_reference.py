#!/usr/bin/env python3
"""Turn resources/code/decay0/decay0_2020-04-20.for (read-only, from the repo's
working tree) into a linkable Fortran unit: strip CRs, drop the interactive
main program + GENBBdia and the ranlux-based rnd1 (the harness provides rnd1/rndm
reading the shared deviate tape).  Nothing else is touched."""
import sys, re
src, dst = sys.argv[1], sys.argv[2]
lines = open(src, 'rb').read().decode('latin-1').replace('\r', '').split('\n')
out = []
# 1. skip up to 'subroutine GENBBsub'
start = next(i for i, l in enumerate(lines) if re.match(r'^\s+subroutine\s+GENBBsub', l, re.I))
i = start
n = len(lines)
skipping = False
while i < n:
    l = lines[i]
    if re.match(r'^\s+function\s+rnd1\s*\(', l, re.I):
        # skip to matching 'end'
        while not re.match(r'^\s+end\s*$', lines[i], re.I):
            i += 1
        i += 1
        continue
    out.append(l)
    i += 1
open(dst, 'w').write('\n'.join(out) + '\n')
