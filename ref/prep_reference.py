#!/usr/bin/env python3
"""Turn resources/code/decay0/decay0_2020-04-20.for (read-only, from the repo's
working tree) into a linkable Fortran unit: strip CRs, drop the interactive
main program + GENBBdia and the ranlux-based rnd1 (the harness provides rnd1/rndm
reading the shared deviate tape).  Nothing else is touched."""
import sys, re
src, dst = sys.argv[1], sys.argv[2]
# --harmonise: second flavour of the oracle in which the reference's 7-digit constants (pi, 2pi, the 0.511 in fermi)
# are replaced by the double-precision values the port uses.  Used only to *explain* a mismatch against the
# strict reference (DESIGN.md section 3, "constants rule"); never as the primary oracle.
harmonise = len(sys.argv) > 3 and sys.argv[3] == '--harmonise'
lines = open(src, 'rb').read().decode('latin-1').replace('\r', '').split('\n')
out = []
# 1. skip up to 'subroutine GENBBsub'
start = next(i for i, l in enumerate(lines) if re.match(r'^\s+subroutine\s+GENBBsub', l, re.I))
i = start
n = len(lines)
skipping = False
while i < n:
    l = lines[i]
    if re.match(r'^\s+function\s+rnd1\s*\(', l, re.I):
        # skip to matching 'end'
        while not re.match(r'^\s+end\s*$', lines[i], re.I):
            i += 1
        i += 1
        continue
    # observation hook (behaviour preserving): note when fermi() clamps its by-reference argument E to 50 eV
    if re.match(r'^\s+if\(E\.lt\.50\.e-6\)\s*E=50\.e-6\s*$', l):
        out.append('\tif(E.lt.50.e-6) then')
        out.append('\t   call vfnote50')
        out.append('\t   E=50.e-6')
        out.append('\tendif')
        i += 1
        nhook = globals().get('nhook', 0) + 1
        globals()['nhook'] = nhook
        continue
    if harmonise and not l[:1] in 'cC*':
        l2 = l.replace('twopi=6.2831853', 'twopi=6.28318530717958623d0').replace('data pi/3.1415927/', 'data pi/3.14159265358979312d0/')
        l2 = l2.replace('w=E/0.511+1.', 'w=E/0.51099906d0+1.').replace('exp(3.1415927*y+', 'exp(3.14159265358979312d0*y+')
        if l2 != l:
            globals()['nharm'] = globals().get('nharm', 0) + 1
        l = l2
    out.append(l)
    i += 1
assert (not harmonise) or globals().get('nharm', 0) == 8, globals().get('nharm')
assert globals().get('nhook', 0) == 1, 'fermi clamp line not found exactly once'
open(dst, 'w').write('\n'.join(out) + '\n')
