#include "refshim.hpp"
#include <cstring>

extern "C" {
void refsetpar_(double *, double *, int *);
void refsetnme_(double *, double *, double *, double *, double *, double *, double *);
void refgetev_(int *, int *, double *, double *, double *);
void refclrev_();
void refgetrange_(double *, double *, double *, int *, int *);
void refcall_(int *, int *, int *, int *, int *, int *, int *);
}

namespace ref {
vf::TapeRandom * g_rnd = nullptr;

void set_params(double e1, double e2) { int nev = 2000000000; refsetpar_(&e1, &e2, &nev); }
void set_nme(const double n[7])
{
  double a[7]; memcpy(a, n, sizeof a);
  refsetnme_(a, a + 1, a + 2, a + 3, a + 4, a + 5, a + 6);
}
int call(int i2bbs, const std::string & name, int ilevel, int modebb, int istart)
{
  int ichn[16]; int n = (int)std::min<size_t>(16, name.size());
  for (int i = 0; i < n; i++) ichn[i] = (unsigned char)name[i];
  int ier = 0;
  refcall_(&i2bbs, ichn, &n, &ilevel, &modebb, &istart, &ier);
  return ier;
}
Event get_event()
{
  Event e; int codes[100]; double pm[300], pt[100];
  refgetev_(&e.np, codes, pm, pt, &e.tevst);
  double t = 0;
  for (int j = 0; j < e.np && j < 100; j++) {
    Particle p; p.code = codes[j]; p.p[0] = pm[3 * j]; p.p[1] = pm[3 * j + 1]; p.p[2] = pm[3 * j + 2];
    p.dt = pt[j]; t += pt[j]; p.t = t; e.parts.push_back(p);
  }
  return e;
}
void clear_event() { refclrev_(); }
Range get_range()
{
  Range r; int sp[4];
  refgetrange_(&r.ebb1, &r.ebb2, &r.toall, &r.levelE, sp);
  for (int k = 0; k < 4; k++) if (sp[k] > 32 && sp[k] < 127) r.chdspin += (char)sp[k];
  return r;
}
} // namespace ref

// ---- symbols the reference needs -------------------------------------------------
extern "C" {
double rnd1_(double *) { return (*ref::g_rnd)(); }
double rndm_(double *) { return (*ref::g_rnd)(); }

typedef double (*f77_func1)(double *);
static double tramp_gauss(double x, void * p) { return ((f77_func1)p)(&x); }
double gauss_(f77_func1 f, double * a, double * b, double * eps)
{
  return bxdecay0::decay0_gauss(tramp_gauss, *a, *b, *eps, (void *)f);
}
typedef void (*f77_fsub)(int *, double *, double *, double *);
static void tramp_fsub(int m, const double * u, double * f, double * x, void * p)
{
  int mm = m; ((f77_fsub)p)(&mm, const_cast<double *>(u), f, x);
}
double dgmlt1_(f77_fsub fs, double * a, double * b, int * ni, int * ng, double * x)
{
  return bxdecay0::decay0_dgmlt1((bxdecay0::fsub1_type)tramp_fsub, *a, *b, *ni, *ng, x, (void *)fs);
}
double dgmlt2_(f77_fsub fs, double * a, double * b, int * ni, int * ng, double * x)
{
  return bxdecay0::decay0_dgmlt2((bxdecay0::fsub2_type)tramp_fsub, *a, *b, *ni, *ng, x, (void *)fs);
}
double divdif_(double * F, double * A, int * NN, double * X, int * MM)
{
  return bxdecay0::decay0_divdif(F, A, *NN, *X, *MM);
}
}
