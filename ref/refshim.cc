#include "refshim.hpp"
#include <cstring>
#include <dlfcn.h>
#include <link.h>

namespace ref {
vf::TapeRandom * g_rnd = nullptr;
int g_sub50 = 0;

static std::string dir_of_self()
{
  const char * e = getenv("VERIF_REFDIR");
  if (e) return e;
  return REFDIR_DEFAULT;
}

struct CbArg { Lib * lib; void * handle; };
static int phdr_cb(struct dl_phdr_info * info, size_t, void * arg)
{
  CbArg * a = (CbArg *)arg;
  if (!info->dlpi_name || !*info->dlpi_name) return 0;
  // identify the object by comparing its link_map base with the handle's
  struct link_map * lm = nullptr;
  if (dlinfo(a->handle, RTLD_DI_LINKMAP, &lm) != 0 || !lm) return 0;
  if ((uintptr_t)lm->l_addr != (uintptr_t)info->dlpi_addr) return 0;
  uintptr_t rlo = 0, rhi = 0; // RELRO part is read-only after relocation: leave it alone
  for (int i = 0; i < info->dlpi_phnum; i++) {
    const ElfW(Phdr) & ph = info->dlpi_phdr[i];
    if (ph.p_type == PT_GNU_RELRO) { rlo = info->dlpi_addr + ph.p_vaddr; rhi = rlo + ph.p_memsz; rhi = (rhi + 4095) & ~(uintptr_t)4095; }
  }
  for (int i = 0; i < info->dlpi_phnum; i++) {
    const ElfW(Phdr) & ph = info->dlpi_phdr[i];
    if (ph.p_type == PT_LOAD && (ph.p_flags & PF_W)) {
      uintptr_t lo = info->dlpi_addr + ph.p_vaddr, hi = lo + ph.p_memsz;
      if (rhi > lo && rlo <= lo) lo = std::min(hi, rhi);
      if (hi > lo) a->lib->segs.push_back({(char *)lo, (size_t)(hi - lo), {}});
    }
  }
  return 0;
}

void Lib::open(const std::string & path)
{
  h = dlopen(path.c_str(), RTLD_NOW | RTLD_LOCAL);
  if (!h) throw std::runtime_error(std::string("dlopen failed: ") + dlerror());
  auto sym = [&](const char * n) { void * p = dlsym(h, n); if (!p) throw std::runtime_error(std::string("missing symbol ") + n); return p; };
  f_setpar = (decltype(f_setpar))sym("refsetpar_");
  f_setnme = (decltype(f_setnme))sym("refsetnme_");
  f_getev = (decltype(f_getev))sym("refgetev_");
  f_clrev = (decltype(f_clrev))sym("refclrev_");
  f_getrange = (decltype(f_getrange))sym("refgetrange_");
  f_call = (decltype(f_call))sym("refcall_");
  f_low = (decltype(f_low))sym("reflow_");
  CbArg a{this, h};
  dl_iterate_phdr(phdr_cb, &a);
  if (segs.empty()) throw std::runtime_error("reference library segments not found");
  snapshot(0);
}
void Lib::set_params(double e1, double e2) { int nev = 2000000000; f_setpar(&e1, &e2, &nev); }
void Lib::set_nme(const double n[7])
{
  double a[7]; memcpy(a, n, sizeof a);
  f_setnme(a, a + 1, a + 2, a + 3, a + 4, a + 5, a + 6);
}
int Lib::call(int i2bbs, const std::string & name, int ilevel, int modebb, int istart)
{
  int ichn[16]; int n = (int)std::min<size_t>(16, name.size());
  for (int i = 0; i < n; i++) ichn[i] = (unsigned char)name[i];
  int ier = 0;
  f_call(&i2bbs, ichn, &n, &ilevel, &modebb, &istart, &ier);
  return ier;
}
bool Lib::call_low(const std::string & routine, int levelkev)
{
  int ichn[16]; int n = (int)std::min<size_t>(16, routine.size());
  for (int i = 0; i < n; i++) ichn[i] = (unsigned char)routine[i];
  int found = 0;
  f_low(ichn, &n, &levelkev, &found);
  return found != 0;
}
Event Lib::get_event()
{
  Event e; int codes[100]; double pm[300], pt[100];
  f_getev(&e.np, codes, pm, pt, &e.tevst);
  double t = 0;
  for (int j = 0; j < e.np && j < 100; j++) {
    Particle p; p.code = codes[j]; p.p[0] = pm[3 * j]; p.p[1] = pm[3 * j + 1]; p.p[2] = pm[3 * j + 2];
    p.dt = pt[j]; t += pt[j]; p.t = t; e.parts.push_back(p);
  }
  return e;
}
void Lib::clear_event() { f_clrev(); }
Range Lib::get_range()
{
  Range r; int sp[4];
  f_getrange(&r.ebb1, &r.ebb2, &r.toall, &r.levelE, sp);
  for (int k = 0; k < 4; k++) if (sp[k] > 32 && sp[k] < 127) r.chdspin += (char)sp[k];
  return r;
}
void Lib::snapshot(int slot) { for (auto & s : segs) s.copy[slot].assign(s.addr, s.addr + s.len); }
void Lib::restore(int slot) { for (auto & s : segs) if (!s.copy[slot].empty()) memcpy(s.addr, s.copy[slot].data(), s.len); }

Lib & strict() { static Lib l; if (!l.h) l.open(dir_of_self() + "/libdecay0_ref.so"); return l; }
Lib & harmonised() { static Lib l; if (!l.h) l.open(dir_of_self() + "/libdecay0_refh.so"); return l; }
} // namespace ref

// ---- symbols the reference needs (resolved from the executable: link with -rdynamic) --------------
extern "C" {
void vfnote50_() { ref::g_sub50++; }
double rnd1_(double *) { return (*ref::g_rnd)(); }
double rndm_(double *) { return (*ref::g_rnd)(); }

typedef double (*f77_func1)(double *);
static double tramp_gauss(double x, void * p) { return ((f77_func1)p)(&x); }
double gauss_(f77_func1 f, double * a, double * b, double * eps)
{
  return bxdecay0::decay0_gauss(tramp_gauss, *a, *b, *eps, (void *)f);
}
typedef void (*f77_fsub)(int *, double *, double *, double *);
static void tramp_fsub(int m, const double * u, double * f, double * x, void * p)
{
  int mm = m; ((f77_fsub)p)(&mm, const_cast<double *>(u), f, x);
}
double dgmlt1_(f77_fsub fs, double * a, double * b, int * ni, int * ng, double * x)
{
  return bxdecay0::decay0_dgmlt1((bxdecay0::fsub1_type)tramp_fsub, *a, *b, *ni, *ng, x, (void *)fs);
}
double dgmlt2_(f77_fsub fs, double * a, double * b, int * ni, int * ng, double * x)
{
  return bxdecay0::decay0_dgmlt2((bxdecay0::fsub2_type)tramp_fsub, *a, *b, *ni, *ng, x, (void *)fs);
}
double divdif_(double * F, double * A, int * NN, double * X, int * MM)
{
  return bxdecay0::decay0_divdif(F, A, *NN, *X, *MM);
}
}
