// refshim.hpp -- C++ side of the Fortran reference binding (DESIGN.md section 3)
#ifndef REFSHIM_HPP
#define REFSHIM_HPP
#include <string>
#include <vector>
#include <bxdecay0/gauss.h>
#include <bxdecay0/dgmlt1.h>
#include <bxdecay0/dgmlt2.h>
#include <bxdecay0/divdif.h>
#include "../engine/vf.hpp"

namespace ref {
// deviate source of the reference (set before each call)
extern vf::TapeRandom * g_rnd;

struct Particle { int code; double p[3]; double t; /* absolute (running sum) */ double dt; };
struct Event { int np = 0; double tevst = 0; std::vector<Particle> parts; };

void set_params(double ebb1, double ebb2);
void set_nme(const double nme[7]);
// returns ier ; istart: -1 init, 1 generate
int call(int i2bbs, const std::string & name, int ilevel, int modebb, int istart);
Event get_event();
void clear_event();
struct Range { double ebb1, ebb2, toall; int levelE; std::string chdspin; };
Range get_range();
} // namespace ref
#endif
