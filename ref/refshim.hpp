// refshim.hpp -- C++ side of the Fortran reference binding (DESIGN.md section 3)
//
// The reference is built twice as a shared object (each loaded with dlopen/RTLD_LOCAL, linked -Bsymbolic,
// so the two copies do not share common blocks):
//   strict     : the Fortran text as shipped
//   harmonised : same text with the 7-digit constants pi / 2pi / 0.511-in-fermi at the port's precision
// The strict flavour is the oracle; the harmonised one only serves to explain (and excuse) a mismatch that is
// entirely due to those constants.
#ifndef REFSHIM_HPP
#define REFSHIM_HPP
#include <string>
#include <vector>
#include <bxdecay0/gauss.h>
#include <bxdecay0/dgmlt1.h>
#include <bxdecay0/dgmlt2.h>
#include <bxdecay0/divdif.h>
#include "../engine/vf.hpp"

namespace ref {
// deviate source of the reference (set before each call)
extern vf::TapeRandom * g_rnd;
// number of times the reference's fermi(Z,E) overwrote its by-reference argument with 50 eV (observation hook)
extern int g_sub50;

struct Particle { int code; double p[3]; double t; /* absolute (running sum) */ double dt; };
struct Event { int np = 0; double tevst = 0; std::vector<Particle> parts; };
struct Range { double ebb1, ebb2, toall; int levelE; std::string chdspin; };

struct Lib
{
  void * h = nullptr;
  void (*f_setpar)(double *, double *, int *) = nullptr;
  void (*f_setnme)(double *, double *, double *, double *, double *, double *, double *) = nullptr;
  void (*f_getev)(int *, int *, double *, double *, double *) = nullptr;
  void (*f_clrev)() = nullptr;
  void (*f_getrange)(double *, double *, double *, int *, int *) = nullptr;
  void (*f_call)(int *, int *, int *, int *, int *, int *, int *) = nullptr;
  void (*f_low)(int *, int *, int *, int *) = nullptr;
  struct Seg { char * addr; size_t len; std::vector<char> copy[2]; };
  std::vector<Seg> segs;

  void open(const std::string & path);
  void set_params(double ebb1, double ebb2);
  void set_nme(const double nme[7]);
  int call(int i2bbs, const std::string & name, int ilevel, int modebb, int istart); // returns ier
  bool call_low(const std::string & routine, int levelkev); // <Nuclide>low(levelkeV) called directly; false if the reference has no such routine
  Event get_event();
  void clear_event();
  Range get_range();
  // The reference is compiled with -fno-automatic: every local lives in static storage and a few routines read
  // locals they never assign on some paths (e.g. thlev in the IT branch of Pa234m; itrans02 for Dy156 levels
  // 12/13), so its output would depend on earlier calls.  Restoring a saved image of its writable segments makes
  // it a pure function of (configuration, tape).  slot 0: pristine image, slot 1: after init of the current config.
  void snapshot(int slot);
  void restore(int slot);
};

Lib & strict();     // libdecay0ref.so
Lib & harmonised(); // libdecay0refh.so
} // namespace ref
#endif
