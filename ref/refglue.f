c Accessors for the reference's common blocks, so that the C++ harness does
c not depend on common-block layout.
      subroutine refsetpar(e1,e2,nev)
      character chfile*40,chdspin*4
      common/genbbpar/nevents,ievstart,irndmst,iwrfile,chfile
      common/enrange/ebb1,ebb2,toallevents,levelE,chdspin
      common/currentev/icurrent
      common/genevent/tevst,npfull,npgeant(100),pmoment(3,100),
     +                  ptime(100)
      ebb1=e1
      ebb2=e2
      toallevents=1.
      nevents=nev
      ievstart=1
      irndmst=0
      iwrfile=0
      chfile='no file'
      icurrent=1
      npfull=0
      return
      end

      subroutine refsetnme(a1,a2,a3,a4,a5,a6,a7)
      common/eta_nme/chi_GTw,chi_Fw,chip_GT,chip_F,chip_T,
     +                 chip_P,chip_R
      chi_GTw=a1
      chi_Fw=a2
      chip_GT=a3
      chip_F=a4
      chip_T=a5
      chip_P=a6
      chip_R=a7
      return
      end

      subroutine refgetev(np,icodes,pm,pt,tev)
      integer icodes(100)
      double precision pm(3,100),pt(100),tev
      common/genevent/tevst,npfull,npgeant(100),pmoment(3,100),
     +                  ptime(100)
      np=npfull
      tev=tevst
      do j=1,min(npfull,100)
         icodes(j)=npgeant(j)
         pt(j)=ptime(j)
         do k=1,3
            pm(k,j)=pmoment(k,j)
         enddo
      enddo
      return
      end

      subroutine refclrev
      common/genevent/tevst,npfull,npgeant(100),pmoment(3,100),
     +                  ptime(100)
      npfull=0
      return
      end

      subroutine refgetrange(e1,e2,toall,lev,ispin)
      character chdspin*4
      integer ispin(4)
      common/enrange/ebb1,ebb2,toallevents,levelE,chdspin
      e1=ebb1
      e2=ebb2
      toall=toallevents
      lev=levelE
      do k=1,4
        ispin(k)=ichar(chdspin(k:k))
      enddo
      return
      end

      subroutine refcall(i2bbs,ichn,nch,ilevel,modebb,istart,ier)
      integer ichn(16)
      character chnuclide*16
      chnuclide=' '
      do k=1,min(nch,16)
         chnuclide(k:k)=char(ichn(k))
      enddo
      call GENBBsub(i2bbs,chnuclide,ilevel,modebb,istart,ier)
      return
      end
