#!/usr/bin/env python3
"""Harvest branching thresholds from the *reference* Fortran text (never from the
C++ under test): numeric literals on the right-hand side of comparisons inside each
subroutine, plus X/100 (the reference draws p=100*rnd1).  Output: C++ include with
  REF_DICT  : subroutine name (lower case) -> sorted thresholds in (0,1)
  REF_CALLS : subroutine -> subroutines it calls (lower case)
  REF_DISPATCH : "bkg:<name>" / "dbd:<name>" -> subroutines called by GENBBsub for that name
"""
import re, sys
src, dst = sys.argv[1], sys.argv[2]
text = open(src).read().split('\n')
# join continuation lines
lines = []
for l in text:
    if l[:1] in 'cC*!' : continue
    if re.match(r'^     \S', l) and not l.startswith('\t') and lines:
        lines[-1] += l[6:]
    elif re.match(r'^\t[1-9]', l) and lines:
        lines[-1] += l[2:]
    else:
        lines.append(l)
subs = {}
cur = None
for l in lines:
    m = re.match(r'^\s+(?:subroutine|function|real function|double precision function)\s+(\w+)', l, re.I)
    if m:
        cur = m.group(1).lower(); subs[cur] = []; continue
    if cur is not None:
        subs[cur].append(l)
num = r'([0-9]+\.?[0-9]*(?:[eEdD][+-]?\d+)?|\.[0-9]+(?:[eEdD][+-]?\d+)?)'
cmp_re = re.compile(r'\.(?:le|lt|ge|gt)\.\s*' + num, re.I)
call_re = re.compile(r'\bcall\s+(\w+)', re.I)
dic, calls = {}, {}
for name, body in subs.items():
    th = set(); cs = set()
    for l in body:
        for m in cmp_re.finditer(l):
            try: x = float(m.group(1).lower().replace('d', 'e'))
            except ValueError: continue
            for y in (x, x / 100.0):
                if 0.0 < y < 1.0: th.add(y)
        for m in call_re.finditer(l):
            cs.add(m.group(1).lower())
    dic[name] = sorted(th); calls[name] = sorted(c for c in cs if c in subs and c != name)
# dispatch table from GENBBsub (after label 1000)
disp = {}
body = subs.get('genbbsub', [])
start = next(i for i, l in enumerate(body) if re.match(r'^1000\s', l))
mode = None; curname = None
for l in body[start:]:
    if re.search(r'if\(i2bbs\.eq\.1\)', l): mode = 'dbd'
    if re.search(r'if\(i2bbs\.eq\.2\)', l): mode = 'bkg'
    m = re.search(r"chnuclide\.eq\.'([^']+)'", l)
    if m: curname = mode + ':' + m.group(1).strip()
    if curname:
        for c in call_re.finditer(l):
            n = c.group(1).lower()
            if n in subs: disp.setdefault(curname, []).append(n)
    if re.match(r'^\s+endif', l, re.I): pass
# DBD isotope table from the init part of GENBBsub (conditions are evaluated, not pattern matched)
def f2py(cond):
    c = cond.lower()
    for a_, b_ in (('.eq.', '=='), ('.ne.', '!='), ('.ge.', '>='), ('.le.', '<='), ('.gt.', '>'), ('.lt.', '<'), ('.or.', ' or '), ('.and.', ' and ')):
        c = c.replace(a_, b_)
    c = re.sub(r'\b0+(\d)', r'\1', c)
    return c
dbd = {}
cur = None
in4b = False
for l in body[:start]:
    l = l.split('!')[0].rstrip()
    if cur is not None and re.match(r'^\s+if\(modebb\.eq\.20\)\s*then', l): in4b = True; continue
    if in4b:
        if re.match(r'^\s+endif', l): in4b = False; continue
        m = re.match(r'^\s+(Qbb|Zdbb)=([-0-9.]+)\s*$', l)
        if m: dbd[cur][m.group(1) + '4b'] = float(m.group(2))
        continue
    m = re.search(r"^\s+chnuclide='([^']+)'", l)
    if m:
        cur = m.group(1).strip(); dbd[cur] = {'rules': [], 'maxlev': 0}; continue
    if re.search(r'if\(i2bbs\.eq\.2\)', l): break
    if cur is None: continue
    for var in ('Qbb', 'Zdbb', 'Adbb', 'EK'):
        m = re.match(r'^\s+' + var + r'=([-0-9.]+)\s*$', l)
        if m: dbd[cur][var] = float(m.group(1))
    m = re.match(r'^\s+if\(ilevel\.lt\.0\.or\.ilevel\.gt\.(\d+)\)\s*then', l)
    if m: dbd[cur]['maxlev'] = int(m.group(1))
    m = re.match(r'^\s+if\((.*)\)\s*(levelE|itrans02|EK)=([-0-9.]+)\s*$', l)
    if m: dbd[cur]['rules'].append((f2py(m.group(1)), m.group(2), float(m.group(3))))
    m = re.match(r'^\s+(levelE|itrans02)=(\d+)\s*$', l)
    if m: dbd[cur]['rules'].append(('True', m.group(1), float(m.group(2))))
dbd = {k: v for k, v in dbd.items() if 'Qbb' in v}
for k, v in dbd.items():
    n = v['maxlev'] + 1
    v['levelE'] = [None] * n; v['itrans02'] = [-1] * n; v['EKl'] = [v['EK']] * n
    for ilevel in range(n):
        for cond, var, val in v['rules']:
            if eval(cond, {'ilevel': ilevel}):
                if var == 'levelE': v['levelE'][ilevel] = int(val)
                elif var == 'itrans02': v['itrans02'][ilevel] = int(val)
                else: v['EKl'][ilevel] = val
    assert all(x is not None for x in v['levelE']), (k, v)
with open(dst, 'w') as o:
    o.write('// itrans = -1 : the reference leaves itrans02 unassigned for that level (stale value from a previous call)\n')
    o.write('// Q4b/Z4b: values the reference substitutes for mode 20 (it also forces ilevel=0); 0 when none\n')
    o.write('struct RefDbd { double Q, Z, A; std::vector<int> levelE; std::vector<int> itrans; std::vector<double> EK; double Q4b, Z4b; };\n')
    o.write('static const std::map<std::string, RefDbd> REF_DBD = {\n')
    for k in sorted(dbd):
        v = dbd[k]
        o.write('  {"%s", {%r, %r, %r, {%s}, {%s}, {%s}, %r, %r}},\n' % (k, v['Qbb'], v['Zdbb'], v['Adbb'],
                ','.join(map(str, v['levelE'])), ','.join(map(str, v['itrans02'])), ','.join(map(repr, v['EKl'])),
                v.get('Qbb4b', 0.0), v.get('Zdbb4b', 0.0)))
    o.write('};\n')
    o.write('// generated by ref/mkdict.py from the reference Fortran -- do not edit\n')
    o.write('static const std::map<std::string, std::vector<double>> REF_DICT = {\n')
    for k in sorted(dic):
        if dic[k]: o.write('  {"%s", {%s}},\n' % (k, ','.join(repr(x) for x in dic[k])))
    o.write('};\nstatic const std::map<std::string, std::vector<std::string>> REF_CALLS = {\n')
    for k in sorted(calls):
        if calls[k]: o.write('  {"%s", {%s}},\n' % (k, ','.join('"%s"' % c for c in calls[k])))
    o.write('};\nstatic const std::map<std::string, std::vector<std::string>> REF_DISPATCH = {\n')
    for k in sorted(disp):
        o.write('  {"%s", {%s}},\n' % (k, ','.join('"%s"' % c for c in disp[k])))
    o.write('};\n')
# ---- de-excitation routines <Nuclide>low(levelkeV): tabulated entry levels, a Fortran dispatcher and the port's function table
# (used by the cascade-level differential of C02: the routines are called directly on both sides, without the primary leptons)
import os
low = {}
for name, body in subs.items():
    if not name.endswith('low'): continue
    levs = set()
    for l in body:
        for m in re.finditer(r'if\(levelkev\.eq\.\s*(\d+)\)\s*go\s*to', l, re.I): levs.add(int(m.group(1)))
    if levs: low[name] = sorted(levs)
if len(sys.argv) > 4:
    glue, inc, repo = sys.argv[3], sys.argv[4], sys.argv[5]
    with open(glue, 'w') as o:
        o.write('      subroutine reflow(ichn,nch,levelkev,ifound)\n      integer ichn(16)\n      character chn*16\n      chn=\' \'\n')
        o.write('      do k=1,min(nch,16)\n         chn(k:k)=char(ichn(k))\n      enddo\n      ifound=1\n')
        for k in sorted(low):
            o.write("      if(chn.eq.'%s') then\n         call %s(levelkev)\n         return\n      endif\n" % (k, k))
        o.write('      ifound=0\n      return\n      end\n')
    hdrs = {f[:-2].lower(): f[:-2] for f in os.listdir(os.path.join(repo, 'bxdecay0')) if f.endswith('low.h')}
    with open(inc, 'w') as o:
        o.write('// generated by ref/mkdict.py -- do not edit\n')
        for k in sorted(low):
            if k in hdrs: o.write('#include <bxdecay0/%s.h>\n' % hdrs[k])
        o.write('typedef void (*port_low_fn)(bxdecay0::i_random &, bxdecay0::event &, const int);\n')
        o.write('struct RefLow { std::vector<int> levels; port_low_fn fn; };\n// fn == nullptr: the port has no such routine\n')
        o.write('static const std::map<std::string, RefLow> REF_LOW = {\n')
        for k in sorted(low):
            o.write('  {"%s", {{%s}, %s}},\n' % (k, ','.join(map(str, low[k])), ('&bxdecay0::' + hdrs[k]) if k in hdrs else 'nullptr'))
        o.write('};\n')
    print('low routines', len(low), 'ported', sum(1 for k in low if k in hdrs))
print('dbd isotopes', len(dbd)); print('subs', len(subs), 'with thresholds', sum(1 for k in dic if dic[k]), 'dispatch', len(disp))
