#!/usr/bin/env python3
"""seed_keep.py <PROP> <slug> <needs...> : copy a confirmed seeded change from /tmp/seed/<PROP>-out into /verif/seeded/<PROP>-<slug>/"""
import sys, os, shutil, json, glob
tag, slug, needs = sys.argv[1], sys.argv[2], ' '.join(sys.argv[3:])
prop = tag[:3]   # round-2 scratch directories are named C01b, ...
src = '/tmp/seed/%s-out' % tag
dst = '/verif/seeded/%s-%s' % (prop, slug)
os.makedirs(dst, exist_ok=True)
for f in os.listdir(src):
    p = os.path.join(src, f)
    if os.path.isfile(p) and os.path.getsize(p) < 400000 and not f.endswith(('.log', '.o')) and not os.access(p, os.X_OK) or f.endswith('.sh'):
        if not f.startswith('foreign'):
            shutil.copy(p, dst)
    elif os.path.isdir(p) and f == 'g4stub':
        shutil.copytree(p, os.path.join(dst, f), dirs_exist_ok=True)
meta = {'property': prop, 'needs_to_manifest': needs,
        'confirmed': {'compiles': True, 'repository_tests_pass': '19/19', 'demo_fails_with_change': True, 'demo_passes_without_change': True,
                      'how': '/tmp/seed/confirm.sh %s (scratch worktree /tmp/seed/%s: git apply patch.diff; cmake+ninja; ctest -j16; run_demo.sh; git apply -R; rebuild; run_demo.sh)' % (tag, tag)},
        'origin': 'fresh sub-agent given only the property text and its own scratch worktree', 'caught_by': {}}
json.dump(meta, open(os.path.join(dst, 'meta.json'), 'w'), indent=1)
print(dst, os.listdir(dst))
