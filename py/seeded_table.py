#!/usr/bin/env python3
"""seeded_table.py -- rewrites the table of section 9 of DESIGN.md from /verif/seeded/*/meta.json"""
import os, json, glob
ROOT = os.path.dirname(os.path.dirname(os.path.abspath(__file__)))
rows = []
for d in sorted(glob.glob(os.path.join(ROOT, 'seeded', '*'))):
    mp = os.path.join(d, 'meta.json')
    if not os.path.exists(mp):
        continue
    m = json.load(open(mp))
    cb = '; '.join('%s: %s' % (k, v['verdict']) for k, v in sorted(m.get('caught_by', {}).items())) or 'not run yet'
    note = m.get('strengthened', '')
    rows.append('| %s | %s | %s | %s | %s |' % (os.path.basename(d), m['property'], m['needs_to_manifest'].replace('|', '/')[:300], cb, note.replace('|', '/')))
table = '| seeded change | breaks | needs, to manifest | caught by | check strengthened because of it |\n|---|---|---|---|---|\n' + '\n'.join(rows) + '\n'
p = os.path.join(ROOT, 'DESIGN.md')
s = open(p).read()
marker = '(table maintained by `py/seeded_table.py`'
i = s.index(marker)
j = s.find('\n', i)
s = s[:j + 1] + '\n' + table
open(p, 'w').write(s)
print(table)
