#!/usr/bin/env python3-vt
"""c14.py -- C14: Hypothesis builds synthetic p.d.f. tables, the REAL encoder (mkocdfdata.py of the repo under test) writes
tab_pdf.data / tab_ocdf.data, the native checker (gacheck) loads them through the library and checks decoder + samplers.
usage: c14.py <gacheck-binary> <tier> <report.json> [--replay file]"""
import sys, os, json, math, subprocess, shutil, hashlib, time
sys.path.insert(0, os.path.dirname(os.path.abspath(__file__)))
import gatool
from hypothesis import given, settings, seed, strategies as st, HealthCheck, Phase

BIN, TIER, OUT = sys.argv[1], sys.argv[2], sys.argv[3]
ROOT = os.path.dirname(os.path.dirname(os.path.abspath(__file__)))
SEED = int(os.environ.get('VERIF_SEED', '1'))
WORK = os.path.join(ROOT, 'build', 'run', 'c14')
shutil.rmtree(WORK, ignore_errors=True)
os.makedirs(WORK, exist_ok=True)
ENC = gatool.load_encoder()
STATS = {'datasets': 0, 'pairs': 0, 'nontrivial': set(), 'labels': {}, 'samples': [], 'failure': None}


def hexf(x):
    return float(x).hex()


def run_dataset(spec, keep=None):
    """spec = dict(n, e_min, step, extra_q, rows[, cut]) -> (ok, result dict)"""
    n = spec['n']
    rows = spec['rows']
    e_min, step = spec['e_min'], spec['step']
    e_max = e_min + (n - 1) * step
    cut = min(spec.get('cut', 0), n - 2)
    base = keep or os.path.join(WORK, 'd%d' % (STATS['datasets'] % 4))
    shutil.rmtree(base, ignore_errors=True)
    d_test = os.path.join(base, 'data/dbd_gA/v1.0/Test/g0')
    pairs = 10000 if TIER == 'thorough' else 4000
    env = dict(os.environ, BXDECAY0_RESOURCE_DIR=os.path.join(os.environ.get('VERIF_REPO', '/repo'), 'resources'))
    if cut > 0:
        # the end point lies INSIDE the sampled triangle, half a step above the anti-diagonal i+j = n-1-cut; the p.d.f. loader demands zeros
        # beyond it.  Only the p.d.f. format (rejection method) can express this: all-zero rows have no cumulative table.
        qbb = round(2 * e_min + (n - 1 - cut) * step + 0.5 * step, 4)
        rows = [[(v if i + j <= n - 1 - cut else 0.0) for j, v in enumerate(r)] for i, r in enumerate(rows)]
        if sum(sum(r) for r in rows) <= 0:
            rows[0][0] = 1.0
        gatool.make_dataset(ENC, rows, e_min, step, qbb, d_test, pdf_only=True)
        with open(os.path.join(base, 'expect.txt'), 'w') as f:
            f.write('%s %s %s %d\n' % (hexf(qbb), hexf(e_min), hexf(step), n))
        r = subprocess.run([BIN, '--datadir', base, '--expect', os.path.join(base, 'expect.txt'), '--pairs', str(pairs), '--seed', str(SEED), '--pdfonly'],
                           stdout=subprocess.PIPE, stderr=subprocess.PIPE, text=True, env=env)
        enc_lines = []
    else:
        qbb = round(e_min + e_max + spec['extra_q'], 4)
        if qbb < e_min + e_max:
            qbb = round(e_min + e_max + 0.0001, 4) + 0.0001
        e1, e2 = gatool.make_dataset(ENC, rows, e_min, step, qbb, d_test)
        d_mo = os.path.join(base, 'data/dbd_gA/v1.0/Mo100/g0')
        os.makedirs(d_mo, exist_ok=True)
        for f in ('tab_pdf.data', 'tab_ocdf.data'):
            shutil.copy(os.path.join(d_test, f), d_mo)
        lines = [l.rstrip('\n') for l in open(os.path.join(d_test, 'tab_ocdf.data')) if l.strip() and not l.startswith('#')]
        enc_lines = lines[2:]
        with open(os.path.join(base, 'expect.txt'), 'w') as f:
            # the loader reads Qbb with 4 decimals, e_min/e_max with 17 digits: pass the values as written to the file
            hdr = lines[1].split()
            f.write('%s %s %s %d\n' % (hexf(float(lines[0])), hexf(float(hdr[1])), hexf(float(hdr[3])), n))
            f.write(' '.join(hexf(v) for v in e1) + '\n')
            for r in e2:
                f.write(' '.join(hexf(v) for v in r) + '\n')
            for l in enc_lines:
                f.write('L ' + l + '\n')
        r = subprocess.run([BIN, '--datadir', base, '--expect', os.path.join(base, 'expect.txt'), '--pairs', str(pairs), '--seed', str(SEED), '--mo100'],
                           stdout=subprocess.PIPE, stderr=subprocess.PIPE, text=True, env=env)
    try:
        res = json.loads(r.stdout.strip().split('\n')[-1])
    except Exception:
        res = {'ok': False, 'cls': 'crash', 'msg': 'gacheck died: rc=%d %s' % (r.returncode, r.stderr[-800:]), 'pairs': 0, 'max_caret': 0, 'has_one': False}
    res['enc_lines'] = enc_lines[:3]
    res['qbb'] = qbb
    res['cut'] = cut
    return res


# ---- strategies
def shape_rows(n, kind, params):
    rows = []
    for i in range(n):
        m = n - i
        row = []
        for j in range(m):
            if kind == 0:
                v = 1.0
            elif kind == 1:  # peaked
                c, w = params['c'] * n, max(0.5, params['w'] * n)
                v = math.exp(-0.5 * ((i - c) ** 2 + (j - c) ** 2) / (w * w)) + 1e-12
            elif kind == 2:  # heavy tails: geometric decay along both axes -> cumulative 0.9...9
                v = 10.0 ** (-params['d1'] * i - params['d2'] * j)
            elif kind == 3:  # reversed geometric: mass at the end
                v = 10.0 ** (-params['d2'] * (m - 1 - j)) * 10.0 ** (-params['d1'] * (n - 1 - i))
            else:  # sparse: zeros with a few spikes
                v = 1.0 if ((i * 7 + j * 3 + params['k']) % (2 + params['k'] % 5)) == 0 else 0.0
            row.append(v)
        if sum(row) <= 0:
            row[0] = 1.0  # every row must carry some probability (the encoder normalises by the row sum)
        rows.append(row)
    return rows


spec_st = st.builds(
    lambda n, e_min, step, extra_q, kind, c, w, d1, d2, k, zero_cells, cut: dict(n=n, e_min=e_min, step=step, extra_q=extra_q, kind=kind,
                                                                               params=dict(c=c, w=w, d1=d1, d2=d2, k=k), zero_cells=zero_cells, cut=cut),
    st.integers(2, 40), st.sampled_from([0.001, 0.01, 0.05, 0.2, 0.5]), st.sampled_from([0.01, 0.05, 0.1, 0.3]), st.sampled_from([0.0002, 0.001, 0.01, 0.5]),
    st.integers(0, 4), st.floats(0.0, 1.0), st.floats(0.05, 1.0), st.sampled_from([0.0, 0.3, 1.0, 2.0, 4.0]), st.sampled_from([0.0, 0.3, 1.0, 2.0, 4.0, 8.0]), st.integers(0, 20),
    st.lists(st.tuples(st.integers(0, 39), st.integers(0, 39)), max_size=6),
    st.sampled_from([0, 0, 0, 1, 2, 5]))   # cut > 0: end point inside the sampled triangle (p.d.f. / rejection method only)


def realise(spec):
    rows = shape_rows(spec['n'], spec['kind'], spec['params'])
    for (i, j) in spec['zero_cells']:
        if i < len(rows) and j < len(rows[i]) and sum(rows[i]) - rows[i][j] > 0:
            rows[i][j] = 0.0
    s = dict(spec)
    s['rows'] = rows
    return s


max_ex = int(os.environ.get('VERIF_C14_DATASETS', 3000 if TIER == 'thorough' else 400))


@seed(SEED)
@settings(max_examples=max_ex, database=None, deadline=None, report_multiple_bugs=False, derandomize=False,
          suppress_health_check=list(HealthCheck), phases=[Phase.generate, Phase.shrink])
@given(spec_st)
def prop(spec):
    s = realise(spec)
    res = run_dataset(s)
    STATS['datasets'] += 1
    STATS['pairs'] += res.get('pairs', 0)
    if res.get('slow_rejection'):
        STATS['labels']['rejection-sampler-too-slow-to-check'] = STATS['labels'].get('rejection-sampler-too-slow-to-check', 0) + 1
    lab = 'kind%d' % spec['kind']
    if res.get('cut'):
        STATS['labels']['endpoint-inside-triangle(pdf-only)'] = STATS['labels'].get('endpoint-inside-triangle(pdf-only)', 0) + 1
        if res['ok'] and not res.get('slow_rejection'):
            STATS['nontrivial'].add(hashlib.sha1(json.dumps(spec, sort_keys=True).encode()).hexdigest())
    STATS['labels'][lab] = STATS['labels'].get(lab, 0) + 1
    if res['ok'] and res['max_caret'] >= 3 and res['has_one']:
        STATS['nontrivial'].add(hashlib.sha1(json.dumps(spec, sort_keys=True).encode()).hexdigest())
        STATS['labels']['caret>=3+!1'] = STATS['labels'].get('caret>=3+!1', 0) + 1
    if res['ok'] and len(STATS['samples']) < 4 and res['max_caret'] >= 2:
        STATS['samples'].append({'n': spec['n'], 'e_min': spec['e_min'], 'step': spec['step'], 'qbb': res['qbb'], 'shape_kind': spec['kind'], 'encoded_lines_head': res['enc_lines'], 'deviate_pairs_checked': res['pairs']})
    if not res['ok']:
        STATS['failure'] = (spec, res)
    assert res['ok'], res['msg']


def main():
    if '--replay' in sys.argv:
        j = json.load(open(sys.argv[sys.argv.index('--replay') + 1]))
        res = run_dataset(realise(j['spec']))
        print('REPLAY-PASS' if res['ok'] else 'REPLAY-FAIL class=%s %s' % (res['cls'], res['msg']))
        return 0 if res['ok'] else 1
    t0 = time.time()
    failures = []
    try:
        prop()
    except AssertionError:
        pass
    except Exception as e:  # hypothesis wraps
        if STATS['failure'] is None:
            print('HARNESS-ERROR', repr(e))
            return 2
    if STATS['failure'] is not None:
        spec, res = STATS['failure']
        sig = 'C14|' + res['cls']
        os.makedirs(os.path.join(ROOT, 'replay'), exist_ok=True)
        path = os.path.join(ROOT, 'replay', 'C14-%s.json' % hashlib.sha1((sig + json.dumps(spec, sort_keys=True)).encode()).hexdigest()[:12])
        json.dump({'property': 'C14', 'spec': spec, 'sig': sig, 'msg': res['msg']}, open(path, 'w'), indent=1)
        failures.append({'sig': sig, 'msg': res['msg'], 'replay': path})
    rep = {'property': 'C14', 'evaluations': STATS['datasets'] + STATS['pairs'], 'labels': STATS['labels'],
           'counters': {'datasets': STATS['datasets'], 'deviate_pairs_and_shots': STATS['pairs']}, 'known': {},
           'nontrivial': sorted(STATS['nontrivial']), 'samples': STATS['samples'], 'failures': failures}
    json.dump(rep, open(OUT, 'w'))
    print('done datasets=%d pairs=%d nontrivial=%d failures=%d %.1fs' % (STATS['datasets'], STATS['pairs'], len(STATS['nontrivial']), len(failures), time.time() - t0))
    return 0


if __name__ == '__main__':
    sys.exit(main())
