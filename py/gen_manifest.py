#!/usr/bin/env python3
"""Regenerates MANIFEST.json from the table below (kept in one place so that it stays valid)."""
import json, os, subprocess
ROOT = os.path.dirname(os.path.dirname(os.path.abspath(__file__)))

CHECKS = {
 'C01': dict(engine='tapecheck+refdiff', technique='property-based differential testing against the Fortran reference (generated deviate tapes, threshold-dictionary steering, shrinking)',
   text='Generated-input differential search: every one of the 61 reference background nuclides is driven from the same generated deviate tape through the C++ port and through the Decay0 2020-04-20 Fortran reference (compiled from the repo\'s own copy); events are compared particle by particle. Every second case is preceded, on the port side, by a steered event of another nuclide (the reference is pure, so state carried from one nuclide to the next meets it). Exploration, not proof: assurance is bounded by the tapes generated (threshold-dictionary steering reaches every branch bracket of the reference text with equal probability).',
   note='Trusted base: gfortran -fdefault-real-8 build of the reference; CERNLIB kernels bound to the port\'s kernels (checked separately in C16); constants rule (a mismatch is excused iff the port agrees with the reference flavour whose pi/2pi/fermi-mass constants are at double precision); knife-edge rule; tolerances 5e-7 (momentum) and 1e-9 (time).', ref='4 C01, 3'),
 'C02': dict(engine='tapecheck+refdiff', technique='property-based differential testing against the Fortran reference over the (isotope, level, mode, window) grid',
   text='Generated-input differential search over double-beta configurations accepted by the reference: initialisation (ier, toallevents, level energy, spin, deviates consumed) and N generated events per configuration are compared with the Fortran reference driven from the same tapes. Quick tier samples the grid stratified (every mode of every isotope at level 0, one accepted cell per excited level); thorough tier enumerates every (isotope, level, mode) and four window classes. In both tiers every de-excitation routine <Nuclide>low is additionally called directly on both sides for every entry level the reference tabulates (cascade-level differential, 30 000 / 2 000 000 steered tapes per (routine, level)).',
   note='Same trusted base as C01. Mode 20 with level>0 is excluded (README: quadruple beta only to the ground state; the reference silently forces level 0). Known findings are matched by signature and excluded from the search by construction.', ref='4 C02, 3'),
 'C03': dict(engine='tapecheck+gencheck', technique='property-based testing with a conservation-law oracle (energy budget vs Q-value and level tables, window membership, toallevents monotonicity)',
   text='Generated configurations (isotope, level, mode, window class) accepted by decay0_generator and steered tapes; every event is checked against an oracle that is independent of the port: Q-values from the reference table, level energies from the README appendix, window bounds, toallevents >= 1 and monotone under nested windows.',
   note='Tolerance 3 keV (tabulated-energy rounding), 1e-6 MeV on window bounds (float storage). Follow-up alpha chains of Bi214/Pb214/Po218/Rn222 are not part of the budget. gA modes are exercised in C14.', ref='4 C03'),
 'C04': dict(engine='tapecheck+gencheck', technique='property-based testing with a validity predicate over tail-steered deviate tapes',
   text='All 69 published background names and the accepted double-beta configurations are shot through decay0_generator from tapes steered into the extreme tails (1e-12, 1-1e-12) and onto the reference branching thresholds; each event must satisfy the well-formedness predicate and each shot must stay within 20000 deviates. Every de-excitation routine is additionally called directly for every entry level (cascade-level pass), and a targeted search (hill climbing on the tape, objective = particles in the event) looks for runaway cascades in every background nuclide.',
   note='The deviate budget (20000) is a harness bound far above the observed maximum (<300); exceeding it is reported as unbounded work.', ref='4 C04'),
 'C05': dict(engine='tapecheck+gencheck', technique='property-based differential testing against a hand-written name->scheme composition table; exhaustive catalogue comparison',
   text='For every published background name the event produced by genbbsub is compared bit for bit with the composition of the nuclide\'s own public scheme functions on the same tape; every pair of names where one is a prefix of the other is checked against concatenation; README lists, .lis files, API sets, mode tables and a universe of 49400 candidate names are compared completely.',
   note='The name->scheme table is written from the reference dispatch and the README, not from genbbsub.cc.', ref='4 C05'),
 'C06': dict(engine='gridcheck', technique='exhaustive enumeration of the accept/reject grid against the reference ier and the documented rule table, plus generated events on every accepted point',
   text='The finite grid (58 names x levels -1..17 x modes 0..25 x 5 window kinds, two API layers) is enumerated completely in both tiers and compared with the Fortran reference\'s ier plus the documented BxDecay0 rules; every accepted point shoots events through the C03/C04 predicates; every rejected point must refuse to shoot; all labels round-trip.',
   note='Names are compared only on published spellings and on names both sides must refuse. Positive gA points need a data set (C14); their negatives are enumerated here.', ref='4 C06'),
 'C07': dict(engine='rapidcheck', technique='stateful property-based testing (generated API histories, whole-sequence shrinking) with a fresh-instance metamorphic oracle',
   text='rapidcheck-generated histories over a pool of generators and event objects, each in its own forked child; at every shot the event must be bit-identical (deviate count included) to what a PRISTINE PROCESS (forked before any library call) produces with a fresh generator and a fresh event from the same tapes. Plus one marathon history per shard (one generator per configuration, tens of thousands of shots hopping between them, minimised by delta debugging) and deep single-instance histories (6000 warm-up shots, then 3000 tapes shot by the warmed instance and by its cold twin forked right after initialize()).',
   note='~130 configurations: 21 hand-picked (angular correlations, deep cascades, chains, windows, 4b, b+ modes), every published background name, two double-beta entries per legacy mode, 36 momentum-direction-lock variants; thorough tier repeats under ASan/UBSan.', ref='4 C07'),
 'C08': dict(engine='libFuzzer+sanitized drivers', technique='coverage-guided fuzzing (structure-aware libFuzzer target) and property-based drivers run under ASan/UBSan/_GLIBCXX_ASSERTIONS',
   text='The generation drivers of C04/C05 (incl. the cascade-level pass) and the C10 operation driver are re-run against an ASan+UBSan+_GLIBCXX_ASSERTIONS build and two libFuzzer targets explore (configuration, reuse pattern, MDL operation, tape) and the gA samplers; any sanitizer report is a violation. While a generator is initialised the harness poisons guarded red zones around its fixed-size spectrum tables, so that an index one before / one past a table (which stays inside the object) is reported too. Reads of uninitialised scalars, which no sanitizer available here reports, are decided by a differential: the C04 driver against two builds of the library whose automatic variables start as zero / as a bit pattern must give bit-identical events.',
   note='Sanitizers are the oracle; leak detection is off; documented rejections (exceptions) are not failures.', ref='4 C08'),
 'C09': dict(engine='proto (exhaustive DFS + rapidcheck)', technique='exhaustive enumeration of call sequences up to a fixed length + stateful property-based testing against an explicit protocol model',
   text='All sequences of up to 4 (quick) / 5 (thorough) calls over an alphabet of 28 abstract public calls are enumerated and compared with an explicit model after every step (which calls must raise, every getter, reset == fresh, events and toallevents == fresh instance); a failure-recovery family (valid configuration, spoiling call, refused initialize, repairing call, every 0-2 further calls, initialize, shoot, shoot) is enumerated completely; rapidcheck adds longer sequences with whole-sequence shrinking.',
   note='Quadrature is stubbed in this binary. The verdict expected from initialize() is the verdict on a fresh instance AND, independently, a rule table written from the README appendix for the configurations of the alphabet (the two must agree at every initialize()).', ref='4 C09'),
 'C10': dict(engine='tapecheck+mdlcheck', technique='property-based testing with geometric invariants and metamorphic relations (op vs no-op event, degree vs radian entry point)',
   text='Generated events, cones, species filters, ranks and entry points; oracle: invariants of a rigid rotation, cone / rectangular-window membership, untouched unselected particles, and equality of the event with the op applied to the op-less event on the tape suffix.',
   note='Rectangular half-angle exactly 0 is outside the domain (empty window).', ref='4 C10'),
 'C11': dict(engine='rapidcheck', technique='stateful property-based testing against a list model with a textual 15-digit round trip',
   text='rapidcheck-generated streams, file partitions with empty files, (start,max) windows and interleavings of has_next_event/load_next_event; the reader must deliver exactly stream[start:start+max], each event textually identical at 15 digits.',
   note='NaN/inf and empty labels are outside the documented format.', ref='4 C11'),
 'C16': dict(engine='tapecheck+kernels', technique='property-based testing against closed forms',
   text='Seven numerical kernels are compared with closed forms over generated parameters (monomial exactness, analytic integrals, known extrema, polynomial interpolation, independent rotation matrix, independent complex-Gamma evaluation).',
   note='Integrands are restricted to what the non-adaptive 87-point rule can resolve.', ref='4 C16'),
 'C12': dict(engine='threads (forced schedules) + TSan', technique='schedule-controlled concurrency testing: exhaustive and generated interleavings at guarded schedule points, plus free-running ThreadSanitizer runs',
   text='The harness owns the schedule: guarded schedule points in decay0_gauss serialise the threads in a generated order. All interleavings of 2 threads x 1 call are enumerated (2x2 in the thorough tier), random schedules cover 3 threads and whole generators; a recording GSL handler stands in for the aborting default; results must equal a sequential run. A lock-step level hands control over at the deviate requests (every published nuclide, pairs per shared helper routine); free-running levels start the same configuration on 2-4 threads, the four gA configurations together, and gA rejection samplers next to a generator. ThreadSanitizer covers everything outside the schedule points.',
   note='Only the schedule points in gauss.cc are controlled; TSan cannot see the handler pointer inside the uninstrumented libgsl (decided by the forced schedules).', ref='4 C12'),
 'C13': dict(engine='Hypothesis + api_ref + LD_PRELOAD kill shim', technique='property-based differential testing at process level (CLI vs API program), metamorphic re-run, fault injection at every write',
   text='Hypothesis-generated command lines (valid lines with 0-2 mutations) are run through bxdecay0-run; accepted lines are compared record by record with a README-style API program, re-run for byte identity and checked for the completion marker; refused lines must leave no record and no marker; for a sample of accepted lines the process is killed before every write of the run and the marker/completeness invariant is checked. A quarter of the lines also run through the ASan/UBSan build.',
   note='Kill points are write-syscall granular (category fault_enumeration is reported inside the evidence; the claimed category stays exploration). The exit status of refused lines is not asserted.', ref='4 C13'),
 'C14': dict(engine='Hypothesis + real encoder + gacheck', technique='property-based round-trip testing (documented Python encoder -> C++ decoder) and model-based checking of the inverse-c.d.f. sampler',
   text='Hypothesis builds synthetic p.d.f. tables; the repo\'s own mkocdfdata.py functions write the data files; the native checker (sanitized build) verifies decoder == encoder input to the encoding precision, table validity, cell membership and monotonicity of the inverse-transform sampler over thousands of deviate pairs per data set, shoot() vs sampled quantities for both methods, and mode 21 through decay0_generator.',
   note='Every table row carries probability; Q exceeds e_min+e_max by at least 2e-4 MeV.', ref='4 C14'),
 'C15': dict(engine='libFuzzer', technique='coverage-guided fuzzing with in-target validity oracles under ASan/UBSan',
   text='Four libFuzzer targets (event_reader, gA p.d.f./o.c.d.f. loaders + samplers, load_optimized_cdf_array, catalogue parsers via the guarded hook) seeded with shipped valid files and encoder output, each with a token dictionary; before the campaigns a systematic tier replaces every token of every valid seed file by every dictionary entry (nan, inf, 1e999, -1, format marks ...); the oracle (exception or the loader\'s own validity predicate incl. finite non-negative tables, no sanitizer report, no hang, bounded allocation) sits inside each target; saved regression inputs are replayed first.',
   note='Only crash-/leak- artifacts count; timeout/oom artifacts only if they reproduce 3x alone; inputs <= 4 KiB.', ref='4 C15'),
 'C17': dict(engine='tapecheck+g4check (Geant4 stand-in)', technique='property-based differential testing of the unchanged extension sources against the core generator, on a minimal stand-in for the Geant4 classes',
   text='The extension sources are compiled unchanged against /verif/g4stub; generated requests (valid with 0-2 mutations) x vertex generators; oracle: the core tools on the same request - same refusal verdict, and for accepted requests one primary per particle with species, momentum (MeV), time (s) and vertex equal to the core generator\'s event on the same seed.',
   note='The stand-in is part of the trusted base (kept to behaviour the extension observably relies on). For the seed only "core refuses => action refuses" is asserted.', ref='4 C17'),
}
NOT_YET = {}

def main():
    props = [json.loads(l) for l in open(os.path.join(ROOT, 'properties.jsonl'))]
    ids = [p['id'] for p in props]
    try:
        commits = subprocess.run(['git', '-C', '/repo', 'log', '--format=%h %s', '--grep=^hook:'], stdout=subprocess.PIPE, text=True).stdout.strip().split('\n')
        commits = [c for c in commits if c]
    except Exception:
        commits = []
    m = {
     'version': 1,
     'setup_cmd': './setup.sh',
     'hooks': {'guard': 'BXDECAY0_VERIF', 'enable': 'build.sh passes -DBXDECAY0_VERIF in CMAKE_CXX_FLAGS for every variant (san, fuzz, fast, tsan, ivz, ivp, cov) built from /repo\'s working tree into /verif/build/<variant>',
               'baseline_off_cmd': './baseline_off.sh', 'source_commits': commits, 'add_only': True},
     'engines': [
       {'name': 'tapecheck', 'path': 'engine/vf.hpp', 'serves_properties': ['C01', 'C02', 'C03', 'C04', 'C05', 'C06', 'C10', 'C12', 'C16', 'C17'], 'kind_free_text': 'own small PBT engine: case = configuration + lazily generated deviate tape (steered by a threshold dictionary harvested from the reference text), shrinking on the tape, replay files'},
       {'name': 'refdiff', 'path': 'checks/refdiff.cc + ref/', 'serves_properties': ['C01', 'C02', 'C06'], 'kind_free_text': 'Fortran reference oracle (two flavours) bound to the same tape'},
       {'name': 'libFuzzer', 'path': 'fuzz/', 'serves_properties': ['C08', 'C15'], 'kind_free_text': 'clang libFuzzer targets with in-target oracles, ASan+UBSan, 16 jobs, seed corpora in corpus/'},
       {'name': 'rapidcheck', 'path': 'checks/proto.cc, checks/history.cc, checks/readercheck.cc', 'serves_properties': ['C07', 'C09', 'C11'], 'kind_free_text': 'generated operation sequences with whole-sequence shrinking against explicit models'},
       {'name': 'hypothesis', 'path': 'py/c13.py, py/c14.py', 'serves_properties': ['C13', 'C14'], 'kind_free_text': 'process- and file-level generation (command lines, data sets) seeded by VERIF_SEED'},
     ],
     'checks': [], 'not_applicable': [],
     'notes': 'Entry point: ./check <ID> <quick|thorough> [--replay <file>]; VERIF_SEED honoured; evidence/<ID>.json rewritten on every run; known_findings.json lists recorded/fixed defects.',
    }
    for i in ids:
        if i in CHECKS:
            c = CHECKS[i]
            m['checks'].append({'property_id': i, 'quick_cmd': './check %s quick' % i, 'thorough_cmd': './check %s thorough' % i,
                                'evidence_file': 'evidence/%s.json' % i, 'replay_cmd_template': './check %s quick --replay {path}' % i,
                                'engine': c['engine'], 'level_claimed': {'category': c.get('category', 'exploration'), 'text': c['text'], 'design_ref': 'DESIGN.md section ' + c['ref']},
                                'level_note': c['note'], 'technique': c['technique']})
        else:
            m['not_applicable'].append({'property_id': i, 'reason': NOT_YET.get(i, 'check not built yet in this revision of /verif (planned in DESIGN.md section 4); nothing is claimed for it')})
    json.dump(m, open(os.path.join(ROOT, 'MANIFEST.json'), 'w'), indent=1)
    print('MANIFEST.json:', len(m['checks']), 'checks,', len(m['not_applicable']), 'not claimed')

if __name__ == '__main__':
    main()
