#!/usr/bin/env python3
"""Regenerates MANIFEST.json from the table below (kept in one place so that it stays valid)."""
import json, os, subprocess
ROOT = os.path.dirname(os.path.dirname(os.path.abspath(__file__)))

CHECKS = {
 'C01': dict(engine='tapecheck+refdiff', technique='property-based differential testing against the Fortran reference (generated deviate tapes, threshold-dictionary steering, shrinking)',
   text='Generated-input differential search: every one of the 61 reference background nuclides is driven from the same generated deviate tape through the C++ port and through the Decay0 2020-04-20 Fortran reference (compiled from the repo\'s own copy); events are compared particle by particle. Exploration, not proof: assurance is bounded by the tapes generated (threshold-dictionary steering reaches every branch bracket of the reference text with equal probability).',
   note='Trusted base: gfortran -fdefault-real-8 build of the reference; CERNLIB kernels bound to the port\'s kernels (checked separately in C16); constants rule (a mismatch is excused iff the port agrees with the reference flavour whose pi/2pi/fermi-mass constants are at double precision); knife-edge rule; tolerances 5e-7 (momentum) and 1e-9 (time).', ref='4 C01, 3'),
 'C02': dict(engine='tapecheck+refdiff', technique='property-based differential testing against the Fortran reference over the (isotope, level, mode, window) grid',
   text='Generated-input differential search over double-beta configurations accepted by the reference: initialisation (ier, toallevents, level energy, spin, deviates consumed) and N generated events per configuration are compared with the Fortran reference driven from the same tapes. Quick tier samples the grid stratified; thorough tier enumerates every (isotope, level, mode) and four window classes.',
   note='Same trusted base as C01. Mode 20 with level>0 is excluded (README: quadruple beta only to the ground state; the reference silently forces level 0). Known findings are matched by signature and excluded from the search by construction.', ref='4 C02, 3'),
}
NOT_YET = {}

def main():
    props = [json.loads(l) for l in open(os.path.join(ROOT, 'properties.jsonl'))]
    ids = [p['id'] for p in props]
    try:
        commits = subprocess.run(['git', '-C', '/repo', 'log', '--format=%h %s', '--grep=^hook:'], stdout=subprocess.PIPE, text=True).stdout.strip().split('\n')
        commits = [c for c in commits if c]
    except Exception:
        commits = []
    m = {
     'version': 1,
     'setup_cmd': './setup.sh',
     'hooks': {'guard': 'BXDECAY0_VERIF', 'enable': 'build.sh passes -DBXDECAY0_VERIF in CMAKE_CXX_FLAGS for every variant (san, fuzz, fast, tsan) built from /repo\'s working tree into /verif/build/<variant>',
               'baseline_off_cmd': './baseline_off.sh', 'source_commits': commits, 'add_only': True},
     'engines': [
       {'name': 'tapecheck', 'path': 'engine/vf.hpp', 'serves_properties': ['C01', 'C02', 'C03', 'C04', 'C05', 'C06', 'C10', 'C16'], 'kind_free_text': 'own small PBT engine: case = configuration + lazily generated deviate tape (steered by a threshold dictionary harvested from the reference text), shrinking on the tape, replay files'},
       {'name': 'refdiff', 'path': 'checks/refdiff.cc + ref/', 'serves_properties': ['C01', 'C02', 'C06'], 'kind_free_text': 'Fortran reference oracle (two flavours) bound to the same tape'},
     ],
     'checks': [], 'not_applicable': [],
     'notes': 'Entry point: ./check <ID> <quick|thorough> [--replay <file>]; VERIF_SEED honoured; evidence/<ID>.json rewritten on every run; known_findings.json lists recorded/fixed defects.',
    }
    for i in ids:
        if i in CHECKS:
            c = CHECKS[i]
            m['checks'].append({'property_id': i, 'quick_cmd': './check %s quick' % i, 'thorough_cmd': './check %s thorough' % i,
                                'evidence_file': 'evidence/%s.json' % i, 'replay_cmd_template': './check %s quick --replay {path}' % i,
                                'engine': c['engine'], 'level_claimed': {'category': c.get('category', 'exploration'), 'text': c['text'], 'design_ref': 'DESIGN.md section ' + c['ref']},
                                'level_note': c['note'], 'technique': c['technique']})
        else:
            m['not_applicable'].append({'property_id': i, 'reason': NOT_YET.get(i, 'check not built yet in this revision of /verif (planned in DESIGN.md section 4); nothing is claimed for it')})
    json.dump(m, open(os.path.join(ROOT, 'MANIFEST.json'), 'w'), indent=1)
    print('MANIFEST.json:', len(m['checks']), 'checks,', len(m['not_applicable']), 'not claimed')

if __name__ == '__main__':
    main()
