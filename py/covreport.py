#!/usr/bin/env python3
"""covreport.py <ID> [quick|thorough] [--accumulate] [file-glob ...]
Measurement tool (not a check): runs the drivers of one property against a gcov-instrumented build of /repo (variant 'cov') and lists,
per source file of the library, the executable lines the generated cases never reached.  Used to find out which parts of the code a
generator does not produce inputs for (section 0.6 of DESIGN.md); evidence files and replay files are not touched.
"""
import sys, os, json, glob, subprocess, fnmatch, shutil, gzip
ROOT = os.path.dirname(os.path.dirname(os.path.abspath(__file__)))
sys.path.insert(0, os.path.join(ROOT, 'py'))
import vlib, props  # noqa: E402

prop = sys.argv[1]
tier = sys.argv[2] if len(sys.argv) > 2 and sys.argv[2] in ('quick', 'thorough') else 'quick'
keep = '--accumulate' in sys.argv   # do not clear the counters first: the report then covers every run since the last clearing
globs = [a for a in sys.argv[2:] if a not in ('quick', 'thorough', '--accumulate')]

_cb, _bv = vlib.compile_bin, vlib.build_variant


def bv(v):
    return _bv('cov' if v in ('fast', 'san') else v)


def cb(name, srcs, variant, **kw):
    return _cb(name, srcs, 'cov' if variant in ('fast', 'san') else variant, **kw)


_rn = vlib.run_native


def rn(binpath, args, nshards, tag, **kw):
    return _rn(binpath, args, nshards, 'cov-' + tag, **kw)


vlib.build_variant = bv
vlib.run_native = rn
props.run_native = rn
vlib.compile_bin = cb
props.compile_bin = cb
vlib.write_evidence = lambda *a, **k: None
props._fuzz = lambda *a, **k: {}     # libFuzzer targets are not measured here

bdir = bv('fast')
if not keep:
    for f in glob.glob(os.path.join(bdir, '**', '*.gcda'), recursive=True) + glob.glob(os.path.join(vlib.BUILD, 'bin', 'cov', '*.gcda')):
        os.remove(f)
os.chdir(ROOT)
rc = getattr(props, 'check_' + prop)(tier)
print('check returned', rc, file=sys.stderr)

out = os.path.join(vlib.BUILD, 'covreport', prop)
shutil.rmtree(out, ignore_errors=True)
os.makedirs(out)
summary = []
for gcda in sorted(glob.glob(os.path.join(bdir, '**', '*.gcda'), recursive=True) + glob.glob(os.path.join(vlib.BUILD, 'bin', 'cov', '*.gcda'))):
    r = subprocess.run(['gcov', '-b', '-j', '-t', gcda], stdout=subprocess.PIPE, stderr=subprocess.DEVNULL, cwd=os.path.dirname(gcda))
    try:
        j = json.loads(r.stdout)
    except Exception:
        continue
    for f in j.get('files', []):
        fn = f['file']
        if not fn.startswith(vlib.REPO) or '/testing/' in fn:
            continue
        rel = os.path.relpath(fn, vlib.REPO)
        if globs and not any(fnmatch.fnmatch(rel, g) for g in globs):
            continue
        lines = f['lines']
        tot = len(lines)
        miss = [l['line_number'] for l in lines if l['count'] == 0]
        br_tot = sum(len(l.get('branches', [])) for l in lines)
        br_miss = [(l['line_number'], i) for l in lines for i, b in enumerate(l.get('branches', [])) if b['count'] == 0 and not b.get('throw')]
        if tot == 0:
            continue
        src = open(fn, errors='replace').read().split('\n')
        with open(os.path.join(out, rel.replace('/', '__') + '.txt'), 'w') as o:
            o.write('%s: %d/%d lines reached, %d uncovered; %d branch outcomes never taken (non-throw)\n' % (rel, tot - len(miss), tot, len(miss), len(br_miss)))
            for n in miss:
                o.write('L %5d: %s\n' % (n, src[n - 1] if n <= len(src) else ''))
            seen = set()
            for n, i in br_miss:
                if n in seen or n in miss:
                    continue
                seen.add(n)
                o.write('B %5d: %s\n' % (n, src[n - 1] if n <= len(src) else ''))
        summary.append((len(miss), rel, tot, len(br_miss)))
summary.sort(reverse=True)
with open(os.path.join(out, 'SUMMARY.txt'), 'w') as o:
    for m, rel, tot, bm in summary:
        o.write('%5d uncovered of %5d lines, %5d branch outcomes untaken  %s\n' % (m, tot, bm, rel))
print(open(os.path.join(out, 'SUMMARY.txt')).read()[:6000])
