#!/usr/bin/env python3
"""seed_note.py <seeded-dir-name> <note...> : records that the property's quick tier missed this change before the check was strengthened, and how it was strengthened"""
import sys, os, json
d = os.path.join(os.path.dirname(os.path.dirname(os.path.abspath(__file__))), 'seeded', sys.argv[1])
p = os.path.join(d, 'meta.json'); m = json.load(open(p))
m.setdefault('caught_by', {})['%s quick (before strengthening)' % m['property']] = {'verdict': 'missed', 'wall_s': 0, 'first_violation': ''}
m['strengthened'] = ' '.join(sys.argv[2:])
json.dump(m, open(p, 'w'), indent=1)
