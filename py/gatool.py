"""gatool.py -- drive the REAL encoder (resources/data/dbd_gA/tools/mkocdfdata.py of the repo under test) on synthetic p.d.f. tables."""
import os, sys, io, importlib.util, contextlib

REPO = os.environ.get('VERIF_REPO', '/repo')


def load_encoder():
    path = os.path.join(REPO, 'resources/data/dbd_gA/tools/mkocdfdata.py')
    spec = importlib.util.spec_from_file_location('mkocdfdata_under_test', path)
    mod = importlib.util.module_from_spec(spec)
    spec.loader.exec_module(mod)
    return mod


def make_dataset(mod, rows, e_min, e_step, qbb, outdir, isotope='Test', mode='g0', pdf_only=False):
    """rows[i] = p.d.f. samples for E1 sample i (triangular: len(rows[i]) = n - i).  Writes tab_pdf.data and tab_ocdf.data
    exactly as mkocdfdata.py does; returns the encoder's normalised cumulative tables (e1_cdf, [e2_cdf rows])."""
    n = len(rows)
    os.makedirs(outdir, exist_ok=True)
    app = mod.mkocdfdata('unused', isotope, mode, qbb, False)
    app.tab_pdf = [list(r) for r in rows]
    app.e1min = e_min
    app.estep = e_step
    app.e1max = e_min + (n - 1) * e_step
    app.ne1 = n
    app.ne2 = n
    app.opdf_filename = os.path.join(outdir, 'tab_pdf.data')
    app.ncdf_filename = os.path.join(outdir, 'tab_ocdf.data')
    if pdf_only:   # end point inside the sampled triangle: rows beyond it are all zero, which only the p.d.f. format can express
        with contextlib.redirect_stderr(io.StringIO()):
            app.save_tab_pdf(False)
        return None, None
    with contextlib.redirect_stderr(io.StringIO()):
        app.fill_tab_cdf()
        app.fill_tab_ncdf()
        app.save_tab_pdf(False)
        app.save_tab_ncdf(1, False)
    return [t[0] for t in app.tab_ncdf], [list(t[1]) for t in app.tab_ncdf]


if __name__ == '__main__':
    # seed corpus helper: gatool.py <outdir>
    m = load_encoder()
    n = 6
    rows = [[(1.0 + 0.3 * i + 0.2 * j) for j in range(n - i)] for i in range(n)]
    make_dataset(m, rows, 0.2, 0.4, 3.0, sys.argv[1])
