"""props.py -- one function per property (check_Cxx(tier) -> exit code)"""
import os, sys, time, json, subprocess
import vlib
from vlib import ROOT, REPO, BUILD, REPLAY, NCPU, Agg, compile_bin, run_native, verdict, known_tsv, seed, log, run_env

REF_ASSUME = [
    'Fortran reference compiled with gfortran-12 -fdefault-real-8 (single precision promoted to double so control flow can agree draw for draw)',
    'CERNLIB gauss/dgmlt1/dgmlt2/divdif/cgamma are bound to the port\'s own kernels (shared trusted base; the kernels are checked in C16)',
    'knife-edge rule: a mismatch that disappears on >50% of 24 replays with deviates perturbed by <=2e-5 relative is excused and counted',
    'tolerances: momentum 5e-7 relative, time 1e-9 relative, toallevents 1e-9 relative',
]


def check_C01(tier):
    t0 = time.time()
    b = compile_bin('refdiff', ['checks/refdiff.cc'], 'fast', ref=True)
    cases = {'quick': 4000, 'thorough': 400000}[tier]
    cases = int(os.environ.get('VERIF_C01_CASES', cases))
    reps = run_native(b, ['--prop', 'C01', '--seed', str(seed()), '--cases', str(cases), '--known', known_tsv('C01')], NCPU, 'C01')
    agg = Agg('C01')
    agg.add(reps)
    rule = ('case = (reference background nuclide, steered deviate tape derived from VERIF_SEED and the case index); %d tapes per nuclide; '
            'non-trivial & distinct = distinct (nuclide, decay-path signature) where the signature is the species sequence with gamma/alpha '
            'energies rounded to 1 keV and betas abstracted to their sign; a case counts only if port and reference agreed on it' % cases)
    return verdict(agg, tier, t0, rule, REF_ASSUME, min_eval=1000)


def check_C02(tier):
    t0 = time.time()
    b = compile_bin('refdiff', ['checks/refdiff.cc'], 'fast', ref=True)
    if tier == 'quick':
        args = ['--grid', 'strat', '--evts', '300']
    else:
        args = ['--grid', 'full', '--evts', os.environ.get('VERIF_C02_EVTS', '3000')]
    reps = run_native(b, ['--prop', 'C02', '--seed', str(seed()), '--known', known_tsv('C02')] + args, NCPU, 'C02')
    agg = Agg('C02')
    agg.add(reps)
    rule = ('case = (isotope, daughter level, mode 1..20, window class none/interior/low-sliver/high-sliver/beyond-e0, NMEs for mode 18) '
            'initialised on both sides (ier, toallevents, levelE, spin, deviates consumed by init compared) then N event tapes each; '
            'non-trivial & distinct = distinct (configuration, window class, cascade-path signature) on which both sides agreed')
    return verdict(agg, tier, t0, rule, REF_ASSUME, min_eval=1000)


GEN_ASSUME = [
    'configurations are driven through the public API (decay0_generator / genbbsub) with a deviate tape clamped to [1e-12, 1-1e-12]',
    'Q-values, level lists and EK are parsed from the reference Fortran text, level energies from the README appendix, published names from the resource .lis files (own parsers)',
    'one shot may consume at most 20000 deviates (spike: mean 10-40, max < 300); exceeding it is reported as unbounded work',
]


def _gencheck(prop, tier, variant='fast', extra=None, tag=None):
    build = vlib.build_ref()  # refdict.inc only (no Fortran linked)
    b = compile_bin('gencheck', ['checks/gencheck.cc'], variant, inc=[build])
    args = ['--prop', prop, '--seed', str(seed()), '--tier', tier, '--known', known_tsv(prop)] + (extra or [])
    if variant == 'san':
        args.append('--breadcrumb')
    return run_native(b, args, NCPU, tag or prop)


def check_C03(tier):
    t0 = time.time()
    agg = Agg('C03')
    agg.add(_gencheck('C03', tier))
    rule = ('case = (isotope, level, mode 1..20, window class) accepted by decay0_generator::initialize x N steered tapes, plus nested window chains '
            'W0>W1>W2>W3 for toallevents monotonicity; oracle: visible energy vs Q (reference table) and README level energy, window membership, '
            'toallevents>=1; non-trivial & distinct = distinct (configuration, window class, cascade signature, tail class of consumed deviates)')
    return verdict(agg, tier, t0, rule, GEN_ASSUME + ['tolerance 3 keV on the energy budget (tabulated-energy rounding), 1e-6 MeV on window bounds (stored as float)',
                                                     'for Bi214/Pb214/Po218/Rn222 only the primary leptons/X-rays are counted (the follow-up alpha chain is not part of the 2b budget)',
                                                     'gA modes 21-24 are exercised in C14 (synthetic data set), not here'], min_eval=1000)


def check_C04(tier):
    t0 = time.time()
    agg = Agg('C04')
    agg.add(_gencheck('C04', tier))
    rule = ('case = (one of the 69 background names | accepted DBD configuration incl. windows) x steered tape with heavy tail steering (low 10^-U(0,12), '
            'high 1-10^-U(0,12), reference thresholds); oracle: validity predicate (1..100 particles, species, finite bounded momenta, finite non-negative '
            'non-decreasing times, event time 0, label == requested name, <=20000 deviates); distinct = (configuration, path signature, tail class)')
    return verdict(agg, tier, t0, rule, GEN_ASSUME, min_eval=1000)


def check_C05(tier):
    t0 = time.time()
    agg = Agg('C05')
    agg.add(_gencheck('C05', tier))
    rule = ('(1) every published background name x N tapes: event from genbbsub(name) must be bit-identical to the composition of the nuclide\'s own public scheme '
            'function(s) (hand-written oracle table) on the same deviates; (2) every ordered pair of names where one is a prefix of the other: the event must not equal '
            'the concatenation of the two schemes; (3) README lists == .lis files == API sets, every published name initialises and shoots, every accepted candidate '
            'name in {element}x{A=1..260}x{"",m,m-B-,m-EC} is published, mode tables agree; distinct = (name, path signature) + pairs + catalogue items')
    return verdict(agg, tier, t0, rule, GEN_ASSUME[:2] + ['the name->scheme table (checks/schemes.hpp) is written from the reference dispatch and the README, not from genbbsub.cc'], min_eval=1000)


def replay(prop, path):
    """plain re-execution of a saved failing case, bypassing every generator"""
    j = json.load(open(path)) if path.endswith('.json') else {}
    if prop in ('C01', 'C02'):
        b = compile_bin('refdiff', ['checks/refdiff.cc'], 'fast', ref=True)
        r = subprocess.run([b, '--prop', prop, '--replay', path], env=run_env())
        return r.returncode
    if prop in ('C03', 'C04', 'C05'):
        build = vlib.build_ref()
        b = compile_bin('gencheck', ['checks/gencheck.cc'], 'fast', inc=[build])
        r = subprocess.run([b, '--prop', prop, '--replay', path], env=run_env())
        return r.returncode
    print('no replayer for', prop)
    return 2


def setup_all():
    """compile everything the quick checks need so that they start fast"""
    for v in ('fast', 'san'):
        vlib.build_variant(v)
    compile_bin('refdiff', ['checks/refdiff.cc'], 'fast', ref=True)
    compile_bin('gencheck', ['checks/gencheck.cc'], 'fast', inc=[vlib.build_ref()])
