"""props.py -- one function per property (check_Cxx(tier) -> exit code)"""
import os, sys, time, json, subprocess
import vlib
from vlib import ROOT, REPO, BUILD, REPLAY, NCPU, Agg, compile_bin, run_native, verdict, known_tsv, seed, log, run_env

REF_ASSUME = [
    'Fortran reference compiled with gfortran-12 -fdefault-real-8 (single precision promoted to double so control flow can agree draw for draw)',
    'CERNLIB gauss/dgmlt1/dgmlt2/divdif/cgamma are bound to the port\'s own kernels (shared trusted base; the kernels are checked in C16)',
    'knife-edge rule: a mismatch that disappears on >50% of 24 replays with deviates perturbed by <=2e-5 relative is excused and counted',
    'tolerances: momentum 5e-7 relative, time 1e-9 relative, toallevents 1e-9 relative',
]


def check_C01(tier):
    t0 = time.time()
    b = compile_bin('refdiff', ['checks/refdiff.cc'], 'fast', ref=True)
    cases = {'quick': 4000, 'thorough': 400000}[tier]
    cases = int(os.environ.get('VERIF_C01_CASES', cases))
    reps = run_native(b, ['--prop', 'C01', '--seed', str(seed()), '--cases', str(cases), '--known', known_tsv('C01')], NCPU, 'C01')
    agg = Agg('C01')
    agg.add(reps)
    rule = ('case = (reference background nuclide, steered deviate tape derived from VERIF_SEED and the case index); %d tapes per nuclide; '
            'non-trivial & distinct = distinct (nuclide, decay-path signature) where the signature is the species sequence with gamma/alpha '
            'energies rounded to 1 keV and betas abstracted to their sign; a case counts only if port and reference agreed on it' % cases)
    return verdict(agg, tier, t0, rule, REF_ASSUME, min_eval=1000)


def check_C02(tier):
    t0 = time.time()
    b = compile_bin('refdiff', ['checks/refdiff.cc'], 'fast', ref=True)
    if tier == 'quick':
        args = ['--grid', 'strat', '--evts', '300']
    else:
        args = ['--grid', 'full', '--evts', os.environ.get('VERIF_C02_EVTS', '3000')]
    reps = run_native(b, ['--prop', 'C02', '--seed', str(seed()), '--known', known_tsv('C02')] + args, NCPU, 'C02')
    agg = Agg('C02')
    agg.add(reps)
    rule = ('case = (isotope, daughter level, mode 1..20, window class none/interior/low-sliver/high-sliver/beyond-e0, NMEs for mode 18) '
            'initialised on both sides (ier, toallevents, levelE, spin, deviates consumed by init compared) then N event tapes each; '
            'non-trivial & distinct = distinct (configuration, window class, cascade-path signature) on which both sides agreed')
    return verdict(agg, tier, t0, rule, REF_ASSUME, min_eval=1000)


def replay(prop, path):
    """plain re-execution of a saved failing case, bypassing every generator"""
    j = json.load(open(path)) if path.endswith('.json') else {}
    if prop in ('C01', 'C02'):
        b = compile_bin('refdiff', ['checks/refdiff.cc'], 'fast', ref=True)
        r = subprocess.run([b, '--prop', prop, '--replay', path], env=run_env())
        return r.returncode
    print('no replayer for', prop)
    return 2


def setup_all():
    """compile everything the quick checks need so that they start fast"""
    for v in ('fast', 'san'):
        vlib.build_variant(v)
    compile_bin('refdiff', ['checks/refdiff.cc'], 'fast', ref=True)
