"""props.py -- one function per property (check_Cxx(tier) -> exit code)"""
import os, sys, time, json, subprocess
import vlib
from vlib import ROOT, REPO, BUILD, REPLAY, NCPU, Agg, compile_bin, run_native, verdict, known_tsv, seed, log, run_env

REF_ASSUME = [
    'Fortran reference compiled with gfortran-12 -fdefault-real-8 (single precision promoted to double so control flow can agree draw for draw)',
    'CERNLIB gauss/dgmlt1/dgmlt2/divdif/cgamma are bound to the port\'s own kernels (shared trusted base; the kernels are checked in C16)',
    'knife-edge rule: a mismatch that disappears on >50% of 24 replays with deviates perturbed by <=2e-5 relative is excused and counted',
    'tolerances: momentum 5e-7 relative, time 1e-9 relative, toallevents 1e-9 relative',
]


def check_C01(tier):
    t0 = time.time()
    b = compile_bin('refdiff', ['checks/refdiff.cc'], 'fast', ref=True)
    cases = {'quick': 250000, 'thorough': 3000000}[tier]
    cases = int(os.environ.get('VERIF_C01_CASES', cases))
    reps = run_native(b, ['--prop', 'C01', '--seed', str(seed()), '--cases', str(cases), '--known', known_tsv('C01')], NCPU, 'C01')
    agg = Agg('C01')
    agg.add(reps)
    fz = {}
    if tier == 'thorough':
        # coverage-guided campaign on the same oracle (climbs into deep level schemes)
        fz = _fuzz('fuzz_refdiff', ['fuzz/fuzz_refdiff.cc'], 'C01', secs=int(os.environ.get('VERIF_C01_FUZZ_SECS', '120')), jobs=NCPU, agg=agg, max_len=1024, ref=True)
    rule = ('case = (reference background nuclide, steered deviate tape derived from VERIF_SEED and the case index); %d tapes per nuclide; '
            'non-trivial & distinct = distinct (nuclide, decay-path signature) where the signature is the species sequence with gamma/alpha '
            'energies rounded to 1 keV and betas abstracted to their sign; a case counts only if port and reference agreed on it' % cases)
    return verdict(agg, tier, t0, rule, REF_ASSUME, extra_cov=fz, min_eval=1000)


def check_C02(tier):
    t0 = time.time()
    b = compile_bin('refdiff', ['checks/refdiff.cc'], 'fast', ref=True)
    if tier == 'quick':
        args = ['--grid', 'strat', '--evts', '800', '--lowevts', '30000']
    else:
        args = ['--grid', 'full', '--evts', os.environ.get('VERIF_C02_EVTS', '3000'), '--lowevts', os.environ.get('VERIF_C02_LOWEVTS', '2000000')]
    reps = run_native(b, ['--prop', 'C02', '--seed', str(seed()), '--known', known_tsv('C02')] + args, NCPU, 'C02')
    agg = Agg('C02')
    agg.add(reps)
    rule = ('case = (isotope, daughter level, mode 1..20, window class none/interior/low-sliver/high-sliver/beyond-e0, NMEs for mode 18) '
            'initialised on both sides (ier, toallevents, levelE, spin, deviates consumed by init compared) then N event tapes each (quick: stratified grid = every mode of every isotope at level 0, '
            'a third of the highest level, 1/11 of the rest, plus for EVERY (isotope, excited level) the first mode the reference accepts in a hashed order with 3N tapes); '
            'plus the cascade-level pass: every de-excitation routine <Nuclide>low called directly on both sides for every entry level the reference tabulates (185 (routine, level) pairs x 30000 / 2000000 steered tapes); '
            'non-trivial & distinct = distinct (configuration, window class, cascade-path signature) on which both sides agreed')
    return verdict(agg, tier, t0, rule, REF_ASSUME, min_eval=1000)


GEN_ASSUME = [
    'configurations are driven through the public API (decay0_generator / genbbsub) with a deviate tape clamped to [1e-12, 1-1e-12]',
    'Q-values, level lists and EK are parsed from the reference Fortran text, level energies from the README appendix, published names from the resource .lis files (own parsers)',
    'one shot may consume at most 20000 deviates (observed: mean 10-40, max < 300), times the full-range/window ratio when an energy window is set (rejection inside a window is slower by that factor); windows with a ratio above 200 are initialised but not sampled; exceeding the bound is reported as unbounded work',
]


def _ga_env():
    """synthetic gA data sets (written by the repo's own encoder) for the four supported isotopes and processes, so that the BxDecay0-only
    modes 21-24 can be initialised: {BXDECAY0_DBD_GA_DATA_DIR: dir}"""
    import gatool
    base = os.path.join(BUILD, 'run', 'gadata')
    import shutil
    shutil.rmtree(base, ignore_errors=True)
    enc = gatool.load_encoder()
    n = 12
    for iso, q in (('Se82', 2.998), ('Mo100', 3.034), ('Cd116', 2.813), ('Nd150', 3.371)):
        for k, proc in enumerate(('g0', 'g2', 'g22', 'g4')):
            rows = [[(1.0 + 0.2 * k) * (1 + i) * (1 + j) * max(0.0, q - 0.2 - 0.2 * (i + j)) for j in range(n - i)] for i in range(n)]
            gatool.make_dataset(enc, rows, 0.1, 0.2, q, os.path.join(base, 'data/dbd_gA/v1.0', iso, proc), isotope=iso, mode=proc)
    return {'BXDECAY0_DBD_GA_DATA_DIR': base}


def _gencheck(prop, tier, variant='fast', extra=None, tag=None):
    build = vlib.build_ref()  # refdict.inc only (no Fortran linked)
    b = compile_bin('gencheck', ['checks/gencheck.cc'], variant, inc=[build])
    args = ['--prop', prop, '--seed', str(seed()), '--tier', tier, '--known', known_tsv(prop)] + (extra or [])
    if variant == 'san':
        args.append('--breadcrumb')
    return run_native(b, args, NCPU, tag or prop, extra_env=_ga_env())


def check_C03(tier):
    t0 = time.time()
    agg = Agg('C03')
    agg.add(_gencheck('C03', tier))
    rule = ('case = (isotope, level, mode 1..20, window class) accepted by decay0_generator::initialize x N steered tapes, plus nested window chains '
            'W0>W1>W2>W3 for toallevents monotonicity; oracle: visible energy vs Q (reference table) and README level energy, window membership, '
            'toallevents>=1; plus the cascade-level pass: every de-excitation routine <Nuclide>low called directly for every entry level the reference tabulates (185 pairs x 30000 / 1000000 steered tapes): the energy released adds up to the entry level energy (3 keV); non-trivial & distinct = distinct (configuration, window class, cascade signature, tail class of consumed deviates)')
    return verdict(agg, tier, t0, rule, GEN_ASSUME + ['tolerance 3 keV on the energy budget (tabulated-energy rounding), 1e-6 MeV on window bounds (stored as float)',
                                                     'for Bi214/Pb214/Po218/Rn222 only the primary leptons/X-rays are counted (the follow-up alpha chain is not part of the 2b budget)',
                                                     'gA modes 21-24 run on synthetic data sets written by the repo\'s own encoder (see C14) with the isotope\'s Q-value'], min_eval=1000)


def check_C04(tier):
    t0 = time.time()
    agg = Agg('C04')
    agg.add(_gencheck('C04', tier))
    rule = ('case = (one of the 69 background names | accepted DBD configuration incl. windows) x steered tape with heavy tail steering (low 10^-U(0,12), '
            'high 1-10^-U(0,12), reference thresholds); oracle: validity predicate (1..100 particles, species, finite bounded momenta, finite non-negative '
            'non-decreasing times, event time 0, label == requested name, <=20000 deviates); plus the cascade-level pass (every <Nuclide>low routine x every entry level x 30000 / 1000000 tapes) through the particle part of the predicate; plus a targeted search per background nuclide (hill climbing on the tape, objective = number of particles of the event, 25000 / 200000 steps) against runaway cascades; distinct = (configuration, path signature, tail class)')
    return verdict(agg, tier, t0, rule, GEN_ASSUME, min_eval=1000)


def check_C05(tier):
    t0 = time.time()
    agg = Agg('C05')
    agg.add(_gencheck('C05', tier, extra=['--evts', '2000000' if tier == 'thorough' else '200000']))
    _c05_list_variants(agg)
    rule = ('(1) every published background name x N tapes: event from genbbsub(name) must be bit-identical to the composition of the nuclide\'s own public scheme '
            'function(s) (hand-written oracle table) on the same deviates; (2) every ordered pair of names where one is a prefix of the other: the event must not equal '
            'the concatenation of the two schemes; (3) README lists == .lis files == API sets, every published name initialises and shoots, every accepted candidate '
            'name in {element}x{A=1..260}x{"",m,m-B-,m-EC} is published, mode tables agree; (4) the three list files re-saved in five layouts (CR LF, no final newline, trailing blanks, comment and blank line in front, CR LF without final newline) give the same API sets (one helper process per layout); distinct = (name, path signature) + pairs + catalogue items')
    return verdict(agg, tier, t0, rule, GEN_ASSUME[:2] + ['the name->scheme table (checks/schemes.hpp) is written from the reference dispatch and the README, not from genbbsub.cc'], min_eval=1000)


def _c05_list_variants(agg):
    """the resource list files re-saved in another layout (CR LF line ends, no final newline, trailing blanks, a comment and a blank line in front)
    hold the same catalogue: the API sets must not change.  One helper process per variant (the library caches its resources in statics)."""
    import shutil
    b = compile_bin('listdump', ['checks/listdump.cc'], 'fast')
    src = os.path.join(REPO, 'resources')
    base = os.path.join(BUILD, 'run', 'c05-lists')
    shutil.rmtree(base, ignore_errors=True)
    names = ['dbd_isotopes.lis', 'background_isotopes.lis', 'dbd_modes.lis']

    def dump(resdir):
        r = subprocess.run([b], stdout=subprocess.PIPE, stderr=subprocess.DEVNULL, env=dict(run_env(), BXDECAY0_RESOURCE_DIR=resdir), timeout=120)
        return sorted(r.stdout.decode('latin-1').split('\n'))
    want = dump(src)
    variants = {
        'crlf': lambda t: t.replace(b'\n', b'\r\n'),
        'no-final-newline': lambda t: t.rstrip(b'\n'),
        'trailing-blanks': lambda t: t.replace(b'\n', b'  \t\n'),
        'comment-and-blank-in-front': lambda t: b'# re-saved copy\n\n' + t,
        'no-final-newline+crlf': lambda t: t.rstrip(b'\n').replace(b'\n', b'\r\n'),
    }
    for vn, fn_ in variants.items():
        d = os.path.join(base, vn)
        os.makedirs(os.path.join(d, 'description'))
        for e in os.listdir(src):
            if e != 'description':
                os.symlink(os.path.join(src, e), os.path.join(d, e))
        for e in os.listdir(os.path.join(src, 'description')):
            sp = os.path.join(src, 'description', e)
            if e in names:
                open(os.path.join(d, 'description', e), 'wb').write(fn_(open(sp, 'rb').read()))
            else:
                os.symlink(sp, os.path.join(d, 'description', e))
        got = dump(d)
        agg.evaluations += 1
        agg.labels['list-variant:' + vn] = 1
        if got == want:
            agg.nontrivial.add('list-variant|' + vn)
            continue
        missing = [x for x in want if x not in got][:4]
        extra = [x for x in got if x not in want][:4]
        path = os.path.join(REPLAY, 'C05-listvariant-%s.txt' % vn)
        os.makedirs(REPLAY, exist_ok=True)
        open(path, 'w').write('resource directory: %s\nvariant: %s\nmissing: %r\nextra: %r\nreproduce: BXDECAY0_RESOURCE_DIR=<that directory> build/bin/fast/listdump\n' % (d, vn, missing, extra))
        agg.failures.append({'sig': 'C05|catalogue|list-layout:%s' % vn, 'msg': 'the catalogue read from list files re-saved as "%s" differs from the shipped one: missing %r, extra %r' % (vn, missing, extra), 'replay': path})


def _uninit_differential(agg, thorough):
    import glob
    refd = vlib.build_ref()
    dig = {}
    for v in ('ivz', 'ivp'):
        b = compile_bin('gencheck', ['checks/gencheck.cc'], v, inc=[refd])
        base = os.path.join(BUILD, 'run', 'C08-digest-' + v)
        for f in glob.glob(base + '.*'):
            os.remove(f)
        args = ['--prop', 'C04', '--seed', str(seed()), '--tier', 'quick', '--known', known_tsv('C04'), '--bkg_evts', '60000' if thorough else '6000', '--dbd_evts', '400' if thorough else '60',
                '--lowevts', '60000' if thorough else '6000', '--climb', '0', '--digest', base]
        reps = run_native(b, args, NCPU, 'C08-uninit-' + v, extra_env=_ga_env())
        for r in reps:
            if r.get('crashed') or r.get('rc') not in (0,):
                agg.broken.append('uninitialised-read differential: driver (%s) failed: %s' % (v, (r.get('stdout', '') + r.get('stderr', ''))[-300:]))
        d = {}
        for f in glob.glob(base + '.*'):
            for l in open(f):
                k, h, n = l.rstrip('\n').split('\t')
                d[k] = (h, n)
        dig[v] = d
    keys = set(dig['ivz']) | set(dig['ivp'])
    agg.evaluations += sum(int(x[1]) for x in dig['ivz'].values())
    agg.labels['uninit-differential-configurations'] = len(keys)
    bad = sorted(k for k in keys if dig['ivz'].get(k) != dig['ivp'].get(k))
    for k in bad[:6]:
        path = os.path.join(REPLAY, 'C08-uninit-%s.txt' % re_sub(k))
        os.makedirs(REPLAY, exist_ok=True)
        open(path, 'w').write('configuration: %s\nzero-initialised build digest/events: %r\npattern-initialised build digest/events: %r\nreproduce: build/bin/ivz/gencheck and build/bin/ivp/gencheck --prop C04 --digest <file> (same seed) and compare the line of this configuration\n' % (k, dig['ivz'].get(k), dig['ivp'].get(k)))
        agg.failures.append({'sig': 'C08|%s|crash:uninitialised-read:differential' % k, 'msg': 'the events of %s differ between a library whose automatic variables start as zero and one where they start as a bit pattern: a variable is read before it is assigned' % k, 'replay': path})
    if not bad and keys:
        agg.nontrivial.add('uninit-differential|%d' % len(keys))


def re_sub(k):
    import re
    return re.sub(r'[^A-Za-z0-9_.+-]', '_', k)[:80]


def _fuzz(name, srcs, prop, secs, jobs, agg, max_len=2048, extra=None, timeout_s=10, min_secs_replay=0, ref=False):
    """engine B: libFuzzer campaign (jobs independent processes, fresh corpus dirs seeded from corpus/<name>/) + replay tier.
    Only crash-/leak- artifacts count; timeout-/oom-/slow-unit- are re-run 3x single-threaded and count only if they reproduce."""
    import re, shutil, hashlib, glob
    from concurrent.futures import ThreadPoolExecutor
    b = compile_bin(name, srcs, 'fuzz', inc=[os.path.join(ROOT, 'fuzz'), vlib.build_ref()], ref=ref)
    rd = os.path.join(BUILD, 'run', 'fuzz-' + name)
    shutil.rmtree(rd, ignore_errors=True)
    os.makedirs(rd)
    os.makedirs(REPLAY, exist_ok=True)
    env = run_env()
    seeds = sorted(glob.glob(os.path.join(ROOT, 'corpus', name, '*')))
    saved = sorted(glob.glob(os.path.join(REPLAY, '%s-%s-*.bin' % (prop, name))))
    stats = {'target': name, 'replayed_inputs': 0, 'execs': 0, 'corpus_units': 0, 'cov_edges': 0, 'jobs': jobs, 'seconds_per_job': secs}

    def classify(path):
        """re-run one input alone; returns (kind, loc, stderr) or None if it passes"""
        r = subprocess.run([b, '-timeout=60', '-rss_limit_mb=4096', path], stdout=subprocess.PIPE, stderr=subprocess.PIPE, env=env)
        if r.returncode == 0:
            return None
        se = r.stderr.decode('latin-1')
        kind, loc = vlib.san_summary(se)
        if kind is None:
            m = re.search(r'ERROR: libFuzzer: ([^\n]*)', se)
            kind, loc = ('libfuzzer', m.group(1)[:80]) if m else ('abnormal-exit', 'rc=%d' % r.returncode)
        return kind, loc, se

    def record(path, tag):
        c = classify(path)
        if c is None:
            return False
        kind, loc, se = c
        data = open(path, 'rb').read()
        dst = os.path.join(REPLAY, '%s-%s-%s.bin' % (prop, name, hashlib.sha1(data).hexdigest()[:12]))
        if not os.path.exists(dst):
            open(dst, 'wb').write(data)
        open(dst + '.txt', 'w').write(se[-6000:])
        agg.failures.append({'sig': '%s|%s|crash:%s:%s' % (prop, name, kind, loc), 'msg': '%s: %s at %s (%s)' % (name, kind, loc, tag), 'replay': dst})
        return True

    # replay tier: committed corpus + previously saved failing inputs
    for f in seeds + saved:
        stats['replayed_inputs'] += 1
        agg.evaluations += 1
        record(f, 'replay tier')

    # systematic tier (grammar-based generation from the valid seed files): every white-space separated token of every seed input is replaced, one
    # at a time, by every entry of the target's token dictionary (number spellings such as nan / inf / 1e999 / -1, format marks) - an enumeration,
    # so a loader that mishandles ONE spelling at ONE position does not depend on the mutator finding it
    dfile = os.path.join(ROOT, 'fuzz', 'dict', name + '.dict')
    if os.path.exists(dfile):
        toks = []
        for l in open(dfile):
            l = l.strip()
            if l.startswith('"') and l.endswith('"'):
                toks.append(l[1:-1].encode().decode('unicode_escape').encode('latin-1'))
        sd = os.path.join(rd, 'sys')
        os.makedirs(sd)
        nsys = 0
        for f in seeds:
            if 'regress' in os.path.basename(f):
                continue
            data = open(f, 'rb').read()
            spans = [m.span() for m in re.finditer(rb'[^\s]+', data[2:])]
            step = max(1, len(spans) // 120)
            for k, (a0, b0) in enumerate(spans):
                if k % step and k < len(spans) - 6:
                    continue
                for t in toks:
                    open(os.path.join(sd, 's%06d' % nsys), 'wb').write(data[:2 + a0] + t + data[2 + b0:])
                    nsys += 1
        for attempt in range(6):
            ad = os.path.join(rd, 'asys%d' % attempt)
            os.makedirs(ad)
            r = subprocess.run([b, '-runs=0', '-max_len=%d' % (max_len + 64), '-timeout=%d' % timeout_s, '-rss_limit_mb=3000', '-malloc_limit_mb=1024', '-artifact_prefix=' + ad + '/', sd], stdout=subprocess.PIPE, stderr=subprocess.PIPE, env=env)
            arts = [a for a in os.listdir(ad) if a.startswith(('crash-', 'leak-', 'timeout-', 'oom-'))]
            if r.returncode == 0 or not arts:
                break
            for a in arts:
                pth = os.path.join(ad, a)
                record(pth, 'systematic token substitution')
                h = hashlib.sha1(open(pth, 'rb').read()).hexdigest()
                for f in os.listdir(sd):   # drop the failing input and go on with the rest
                    if hashlib.sha1(open(os.path.join(sd, f), 'rb').read()).hexdigest() == h:
                        os.remove(os.path.join(sd, f))
        stats['systematic_token_substitutions'] = nsys
        agg.evaluations += nsys

    def job(i):
        cd = os.path.join(rd, 'c%d' % i)
        ad = os.path.join(rd, 'a%d' % i)
        os.makedirs(cd)
        os.makedirs(ad)
        if i % 2 == 0:  # even jobs start from the seed corpus, odd jobs from an empty one
            for f in seeds:
                shutil.copy(f, cd)
        e = dict(env, VERIF_FUZZ_STATS=os.path.join(rd, 'stats%d.json' % i))
        cmd = [b, cd, '-max_total_time=%d' % secs, '-seed=%d' % (seed() * 100 + i + 1), '-artifact_prefix=' + ad + '/', '-print_final_stats=1',
               '-max_len=%d' % max_len, '-timeout=%d' % timeout_s, '-rss_limit_mb=3000', '-malloc_limit_mb=1024', '-use_value_profile=0'] + (extra or [])
        dfile = os.path.join(ROOT, 'fuzz', 'dict', name + '.dict')
        if os.path.exists(dfile) and i % 4 != 3:   # three jobs in four use the token dictionary of the target
            cmd.append('-dict=' + dfile)
        out = []
        # libFuzzer stops at the first crash: restart until the time budget is used (the corpus dir keeps its state)
        t_end = time.time() + secs
        while True:
            left = int(t_end - time.time())
            if left < 2 and out:
                break
            cmd[2] = '-max_total_time=%d' % max(left, 2)
            r = subprocess.run(cmd, stdout=subprocess.PIPE, stderr=subprocess.PIPE, env=e)
            out.append(r.stderr.decode('latin-1'))
            open(os.path.join(rd, 'log%d.txt' % i), 'a').write(out[-1][-20000:])
            if r.returncode == 0 or len(out) > 50:
                break
        return out, ad, cd, os.path.join(rd, 'stats%d.json' % i)

    with ThreadPoolExecutor(max_workers=jobs) as ex:
        results = list(ex.map(job, range(jobs)))
    labels = {}
    seen_art = set()
    for outs, ad, cd, sf in results:
        for se in outs:
            m = re.findall(r'stat::number_of_executed_units:\s*(\d+)', se)
            if m:
                stats['execs'] += int(m[-1])
            m = re.findall(r'cov: (\d+)', se)
            if m:
                stats['cov_edges'] = max(stats['cov_edges'], int(m[-1]))
        units = os.listdir(cd)
        stats['corpus_units'] += len(units)
        for u in units:
            agg.nontrivial.add('fz:' + name + ':' + u)
        # a few corpus units as samples of what the campaign explored (largest first: they are the structured ones)
        if len([x for x in agg.samples if isinstance(x, dict) and x.get('target') == name]) < 2:
            for u in sorted(units, key=lambda f: -os.path.getsize(os.path.join(cd, f)))[:1]:
                data = open(os.path.join(cd, u), 'rb').read()[:400]
                agg.samples.append({'target': name, 'corpus_unit': u, 'bytes': len(data), 'input_text': data.decode('latin-1').encode('unicode_escape').decode('ascii')[:600]})
        if os.path.exists(sf):
            try:
                for k, v in json.load(open(sf)).items():
                    labels[k] = labels.get(k, 0) + v
            except Exception:
                pass
        for a in sorted(os.listdir(ad)):
            pth = os.path.join(ad, a)
            h = hashlib.sha1(open(pth, 'rb').read()).hexdigest()
            if h in seen_art:
                continue
            seen_art.add(h)
            if a.startswith(('crash-', 'leak-')):
                if not record(pth, 'campaign'):
                    stats['unreproducible_artifacts'] = stats.get('unreproducible_artifacts', 0) + 1
            else:  # timeout / oom / slow-unit: only if it reproduces 3x alone
                if a.startswith('slow-unit'):
                    continue
                if stats.get('confirmed_hang_or_oom_artifacts', 0) >= 2:   # a hang costs minutes to confirm: two confirmed ones settle it
                    stats['further_hang_or_oom_artifacts_not_rechecked'] = stats.get('further_hang_or_oom_artifacts_not_rechecked', 0) + 1
                    continue
                ok = 0
                for _ in range(3):
                    r = subprocess.run([b, '-timeout=%d' % (timeout_s * 3), '-rss_limit_mb=3000', '-malloc_limit_mb=1024', pth], stdout=subprocess.PIPE, stderr=subprocess.PIPE, env=env)
                    if r.returncode != 0:
                        ok += 1
                if ok == 3:
                    stats['confirmed_hang_or_oom_artifacts'] = stats.get('confirmed_hang_or_oom_artifacts', 0) + 1
                    record(pth, 'campaign (%s reproduced 3x)' % a.split('-')[0])
                else:
                    stats['load_noise_artifacts'] = stats.get('load_noise_artifacts', 0) + 1
    agg.evaluations += stats['execs']
    for k, v in labels.items():
        agg.labels['fz:%s:%s' % (name, k)] = v
    if stats['execs'] == 0:
        agg.broken.append('libFuzzer target %s executed nothing' % name)
    key = 'libfuzzer_' + name
    return {key: stats}


def check_C06(tier):
    t0 = time.time()
    b = compile_bin('gridcheck', ['checks/gridcheck.cc'], 'fast', ref=True)
    shots = '80' if tier == 'thorough' else '20'
    reps = run_native(b, ['--seed', str(seed()), '--shots', shots, '--known', known_tsv('C06')], NCPU, 'C06', extra_env=_ga_env())
    agg = Agg('C06')
    agg.add(reps)
    rule = ('finite grid enumerated completely in both tiers: (51 published isotopes + 7 names both sides must refuse) x levels -1..17 x modes 0..25, through genbbsub '
            '(vs reference ier + README mode-20 rule) and through decay0_generator::initialize with 7 window kinds (none, valid, inverted, min==max, entirely above e0, lower bound only, upper bound only; on capable and '
            'non-capable modes); every accepted legacy point shoots N events through the C03/C04 predicates (N=6 quick, 60 thorough); every rejected point must refuse '
            'shoot(); 24 labels round-trip, 7 unknown labels; distinct = grid points')
    return verdict(agg, tier, t0, rule, REF_ASSUME[:2] + ['names are compared only on published spellings and on names both the reference and the port must refuse (the reference\'s '
                   'case-insensitive positional matching is not a published contract)', 'positive gA points (modes 21-24 on Se82/Mo100/Cd116/Nd150 level 0) are initialised on synthetic data sets written by the repo\'s own encoder',
                   'the reference is restored to its pristine static image before every point (its itrans02 is unassigned for Dy156 levels 12/13)'],
                   extra_cov={'exhaustive': True}, min_eval=10000)


def check_C09(tier):
    t0 = time.time()
    b = compile_bin('proto', ['checks/proto.cc'], 'fast', libs=['-lrapidcheck', '-rdynamic'])
    maxlen, rc_cases = ('5', '60000') if tier == 'thorough' else ('4', '25000')
    reps = run_native(b, ['--seed', str(seed()), '--maxlen', maxlen, '--rc_cases', rc_cases, '--known', known_tsv('C09')], NCPU, 'C09', extra_env={'VERIF_GA_BASE': _ga_env()['BXDECAY0_DBD_GA_DATA_DIR'], 'VERIF_SCRATCH': '/dev/shm' if os.access('/dev/shm', os.W_OK) else os.path.join(BUILD, 'run')})
    agg = Agg('C09')
    agg.add(reps)
    rule = ('(a) ALL call sequences of length 1..%s over an alphabet of 28 abstract public calls (setters with valid/invalid arguments incl. no/one-sided/inverted/too-high energy windows, by-label known/unknown, add_operation valid/null, '
            'initialize, shoot, reset, destroy+recreate) enumerated exhaustively; (a\') the failure-recovery family enumerated completely: 10 valid configurations x every call that spoils one '
            '(unknown isotope, missing level, gA mode without data, wrong category, inverted window, window above Q) ; initialize (refused) ; repairing call ; EVERY sequence of 0..2 further calls ; initialize ; shoot ; shoot; (a\'\') gA failure recovery: tab_ocdf.data of a synthetic data set cut at every line start and a stride of byte offsets, initialize() refused inside the loader, file restored, the same object initialised again / after reset + re-configuration / after another gA mode in between: 12 events == a new generator\'s; (b) rapidcheck-generated sequences up to length ~60 with whole-sequence shrinking; oracle = explicit '
            'model (which calls must raise, every getter after every step, reset == fresh, events and toallevents == fresh instance on the same tape); '
            'non-trivial & distinct = distinct sequences containing at least one refused call and one successful initialize' % maxlen)
    return verdict(agg, tier, t0, rule, ['gsl_integration_qng is interposed by a cheap deterministic stub in this binary (only the protocol is under test; acceptance itself is C06)',
                                         'the expected outcome of initialize() is the outcome on a fresh instance configured with the same fields',
                                         'the decay version may be filled in by an initialize() attempt (not asserted)'],
                   extra_cov={'exhaustive': True, 'exhaustive_note': 'part (a) is exhaustive up to the stated length; part (b) is sampling'}, min_eval=10000)


def check_C07(tier):
    t0 = time.time()
    cases = '4000' if tier == 'thorough' else '250'
    agg = Agg('C07')
    for variant in (('fast', 'san') if tier == 'thorough' else ('fast',)):
        b = compile_bin('history', ['checks/history.cc'], variant, libs=['-lrapidcheck'], inc=[vlib.build_ref()])
        agg.add(run_native(b, ['--seed', str(seed()), '--cases', cases if variant == 'fast' else '600', '--marathon', ('400000' if tier == 'thorough' else '40000') if variant == 'fast' else '8000', '--deepwarm', ('30000' if tier == 'thorough' else '6000') if variant == 'fast' else '1500', '--deepcmp', ('20000' if tier == 'thorough' else '3000') if variant == 'fast' else '500', '--known', known_tsv('C07')], NCPU, 'C07-' + variant))
    rule = ('rapidcheck-generated API histories (up to ~100 operations, whole-sequence shrinking) over 4 generator slots and ~85 configurations (21 hand-picked: angular correlations, deep cascades, chains, window mode, 4b, b+ modes; plus every published background name), shot tapes steered onto the reference thresholds'
            ' and drawn from a small pool so that the same (configuration, tape) recurs in different histories: create+initialise, shoot into a fresh / reused / pre-filled (junk particles) / shrink_to_fit event, reset+re-initialise, destroy, interleaved across slots; '
            'oracle at every shot: what a PRISTINE PROCESS (forked before any library call; fresh generator, fresh event) produces for the same configuration, init tape and shot tape, bit-identical incl. deviates consumed; non-trivial & distinct = (target configuration, history shape) where the shot had '
            '>=1 earlier shot on the same instance, >=1 operation on another instance in between, and a non-fresh event; plus one marathon history per shard (one generator per configuration, then 40000 / 400000 shots hopping between all of them in one process, '
            'minimised by delta debugging in fresh child processes on failure); plus deep single-instance histories: one instance per double-beta entry of the pool and 8 background nuclides shoots 6000 / 30000 distinct tapes, then 3000 / 20000 further tapes are each shot by the warmed instance and by its cold twin (a process forked right after initialize() that never shot), bit-identical incl. the deviate count; every history runs in its own forked child, so failures do not depend on earlier cases and replay in a fresh process')
    return verdict(agg, tier, t0, rule, ['the oracle process is forked before any library call, so it shares no function-local static, cache or global with the history under test', 'thorough tier repeats the histories against the ASan/UBSan build'], min_eval=500)


def check_C10(tier):
    t0 = time.time()
    b = compile_bin('mdlcheck', ['checks/mdlcheck.cc'], 'fast')
    cases = '40000000' if tier == 'thorough' else '4000000'
    agg = Agg('C10')
    agg.add(run_native(b, ['--seed', str(seed()), '--cases', cases, '--known', known_tsv('C10')], NCPU, 'C10'))
    rule = ('case = (event: synthetic 1-12 particles incl. collinear / axis-aligned / back-to-back, or a real decay of a random published nuclide / DBD configuration on a generated tape) x '
            '(cone axis by vector or angles incl. poles and +-x,+-y; aperture in [0,pi) with mass at 0 and near pi; rectangular half-angles in (0,pi/2)) x species filter incl. all and an absent '
            'species x rank -1..5 x error_on_missing x the five configuration entry points x op object new / configured before / configured, reset(), configured / configured, deactivate(), configured; a deactivated op passes the event through; oracle: count/species/times/|p| unchanged, event with registered op == op applied to the op-less event '
            'on the tape suffix, target mode: all pairwise dot products + orientation preserved and target inside cone / rectangular window (both half-angles), selection mode: selected inside, '
            'others bit-identical, nothing selected: unchanged or logic_error iff requested; every 5th case: degree entry point == radian entry point on the same tape; '
            'distinct = (entry point, mode, cone class, #particles, selected count)')
    return verdict(agg, tier, t0, rule, ['rectangular half-angle exactly 0 is excluded from the domain (strict < makes the window empty and the rejection loop cannot terminate)',
                                         'cone frame convention: x along e_theta, y along e_phi of the axis direction (standard spherical basis)',
                                         'tolerances: |p| 1e-12 relative, dot products 1e-9 relative, cone membership 1e-7 rad'], min_eval=10000)


def check_C11(tier):
    t0 = time.time()
    b = compile_bin('readercheck', ['checks/readercheck.cc'], 'fast', libs=['-lrapidcheck'])
    cases = '40000' if tier == 'thorough' else '4000'
    wd = os.path.join(BUILD, 'run', 'c11tmp')
    os.makedirs(wd, exist_ok=True)
    agg = Agg('C11')
    agg.add(run_native(b, ['--seed', str(seed()), '--cases', cases, '--workdir', wd, '--known', known_tsv('C11')], NCPU, 'C11'))
    rule = ('rapidcheck-generated cases (whole-case shrinking): event stream of 0-40 events (catalogue and odd labels, 0-12 particles, values: exact decimals, 17-digit, tiny/huge, +-0, '
            '15-digit-rounding straddlers) written exactly as bxdecay0-run writes them, cut into 1-7 files with empty / whitespace-only files at any position, (start,max) incl. 0, the end and '
            'beyond, optional zero_event_time, the reader object built by its configuring constructor / by the default constructor + set_configuration / RE-USED (configured with another window of the same files, partly read, reset_configuration, set_configuration) / after a configuration it had to refuse (white-space-only file followed by a missing file), some files with CR LF line ends, and a random interleaving of has_next_event/load_next_event followed by a drain; oracle: list model (exactly stream[start:start+max] in order), '
            'textual identity of the re-stored event at 15 digits, has_next true => load succeeds, empty window => has_next false, loaded counter; '
            'non-trivial & distinct = (partition shape, window class, stream size) with >=2 non-empty files and a window boundary strictly inside a file')
    return verdict(agg, tier, t0, rule, ['NaN/inf values and empty generator labels are outside the documented format and are not generated', 'loading when no window event remains is not specified and not attempted'], min_eval=1000)


def check_C16(tier):
    t0 = time.time()
    b = compile_bin('kernels', ['checks/kernels.cc'], 'fast')
    cases = '200000000' if tier == 'thorough' else '30000000'
    agg = Agg('C16')
    agg.add(run_native(b, ['--seed', str(seed()), '--cases', cases, '--known', known_tsv('C16')], NCPU, 'C16'))
    rule = ('cases cycle over 7 kernels: dgmlt1/dgmlt2 on monomials x^k (k<=2NG-1, NG in {6,8}, NI 1..20, random intervals incl. reversed) and nested dgmlt1(dgmlt2) as in dshelp1/2 (1e-13 rel.); '
            'decay0_gauss on polynomial/exp/offset-sine/gaussian/lorentzian families with analytic integrals, eps 1e-3..1e-8 (|err|<=eps|I|); tsimpr on random polynomials of degree<=3 (1e-12); '
            'tgold min/max on parabola/gaussian/abs/cos with known extremum (|x-x*|<=eps); divdif on polynomials of degree<=MM over increasing and decreasing irregular tables (1e-10); rotate_zyz vs an '
            'independent Rz(phi)Ry(theta)Rz(psi), scalar products and determinant; decay0_fermi vs an independent Lanczos complex-Gamma evaluation, Z in +-[1,100], E in [1e-9,10] MeV (1e-9 rel.); '
            'distinct = (kernel, degree/order/family, interval or parameter class)')
    return verdict(agg, tier, t0, rule, ['quadrature integrands are restricted to what a non-adaptive 87-point rule can resolve (the claim is for smooth integrands) and to |I| not a small difference',
                                         'tgold: eps >= 1e-5 of the interval length (below that, function values near a smooth extremum are indistinguishable in double precision)'], min_eval=10000)


C15_TARGETS = [('fuzz_reader', 'fuzz/fuzz_reader.cc', 4096), ('fuzz_ga', 'fuzz/fuzz_ga.cc', 4096), ('fuzz_cdfarray', 'fuzz/fuzz_cdfarray.cc', 512), ('fuzz_catalog', 'fuzz/fuzz_catalog.cc', 2048)]


def check_C15(tier):
    t0 = time.time()
    agg = Agg('C15')
    thorough = tier == 'thorough'
    cov = {}
    wd = os.path.join(BUILD, 'run', 'c15scratch')
    os.makedirs(wd, exist_ok=True)
    os.environ['VERIF_SCRATCH'] = '/dev/shm' if os.path.isdir('/dev/shm') and os.access('/dev/shm', os.W_OK) else wd
    # the four targets run one after the other, each with NCPU/1 jobs (libFuzzer processes are single threaded)
    for name, src, max_len in C15_TARGETS:
        secs = 600 if thorough else (20 if name in ('fuzz_ga', 'fuzz_reader') else 8)
        cov.update(_fuzz(name, [src], 'C15', secs=secs, jobs=NCPU, agg=agg, max_len=max_len))
    rule = ('four libFuzzer targets (ASan+UBSan, 16 jobs each, even jobs seeded from corpus/<target>/ = shipped valid files + encoder output, odd jobs from an empty corpus): event_reader on 1-3 files '
            'with (start,max); dbd_gA p.d.f. loader and o.c.d.f. loader followed by 32 shots of the matching sampler; load_optimized_cdf_array; the three catalogue list parsers via the guarded hook; '
            'oracle inside each target: std::exception or the loader\'s validity predicate (event::is_valid, finite non-negative energies with e1+e2<=esum_max, non-blank names, mode ids>0), '
            'finite parameters and a finite non-negative interpolated density for an accepted p.d.f. table), no sanitizer report, no hang (10 s, re-verified 3x), single allocations <= 1 GiB; three jobs in four use the target\'s token dictionary (fuzz/dict/); before the campaigns a systematic tier replaces every token of every valid seed file by every dictionary entry, one at a time; evaluations = executions; distinct = corpus units (coverage-increasing inputs)')
    return verdict(agg, tier, t0, rule, ['only crash-/leak- artifacts count; timeout-/oom- artifacts only if they reproduce 3x single-threaded', 'inputs are at most 4 KiB',
                                         'VERIF-ORACLE-VIOLATION traps mark semantic violations (garbage loads), sanitizer reports mark memory errors'], extra_cov=cov, min_eval=10000)


def check_C14(tier):
    t0 = time.time()
    b = compile_bin('gacheck', ['checks/gacheck.cc'], 'san')
    out = os.path.join(BUILD, 'run', 'c14-report.json')
    if os.path.exists(out):
        os.remove(out)
    env = run_env()
    r = subprocess.run(['python3-vt', os.path.join(ROOT, 'py/c14.py'), b, tier, out], stdout=subprocess.PIPE, stderr=subprocess.STDOUT, text=True, env=env)
    agg = Agg('C14')
    if not os.path.exists(out):
        agg.broken.append('c14.py produced no report: ' + r.stdout[-1500:])
    else:
        rep = json.load(open(out))
        rep['rc'] = 0
        agg.add([rep])
    rule = ('Hypothesis (seeded by VERIF_SEED) builds synthetic triangular p.d.f. tables (n=2..40, 5 e_min x 4 steps, Q>=e_min+e_max incl. equality, shapes: flat, peaked, geometric heavy tails '
            'giving cumulative values 0.9..9 up to 16 nines, reversed tails, sparse with zero cells) and runs the REAL mkocdfdata.py functions of the repo to write tab_pdf.data/tab_ocdf.data; '
            'the native checker (ASan/UBSan build) then verifies: decoder == encoder input to the encoding precision, tables monotone in [0,1] ending at 1, inverse-transform samples non-negative, '
            'sum<=Q, inside the cell an independent binary search selects, monotone in each deviate (4000/10000 deviate pairs per data set: uniform, grid, tails, straddling table entries), '
            'shoot() == sampled energies and opening angle for both methods, and mode 21 through decay0_generator on the same files installed as Mo100; '
            'non-trivial & distinct = data sets whose encoded rows contain a ^n with n>=3 and a !1')
    return verdict(agg, tier, t0, rule, ['the encoder is the repo\'s own mkocdfdata.py imported as a module (fill_tab_cdf, fill_tab_ncdf, save_tab_pdf, save_tab_ncdf)',
                                         'every table row carries some probability (the encoder divides by the row sum)', 'Q exceeds e_min+e_max by at least 2e-4 MeV (with exact equality the p.d.f. loader\'s own e1+e2<=Q predicate is decided by rounding)'], min_eval=1000)


def _killshim():
    out = os.path.join(BUILD, 'bin', 'killshim.so')
    src = os.path.join(ROOT, 'checks/killshim.c')
    os.makedirs(os.path.dirname(out), exist_ok=True)
    if not os.path.exists(out) or os.path.getmtime(out) < os.path.getmtime(src):
        vlib.sh(['gcc', '-O1', '-shared', '-fPIC', src, '-o', out, '-ldl'])
    return out


def check_C13(tier):
    t0 = time.time()
    bdir = vlib.build_variant('fast')
    api = compile_bin('api_ref', ['checks/api_ref.cc'], 'fast')
    shim = _killshim()
    out = os.path.join(BUILD, 'run', 'c13-report.json')
    if os.path.exists(out):
        os.remove(out)
    sdir = vlib.build_variant('san')
    env = dict(run_env(), VERIF_RUN_SAN=os.path.join(sdir, 'bxdecay0-run'))
    r = subprocess.run(['python3-vt', os.path.join(ROOT, 'py/c13.py'), os.path.join(bdir, 'bxdecay0-run'), api, shim, tier, out], stdout=subprocess.PIPE, stderr=subprocess.STDOUT, text=True, env=env)
    agg = Agg('C13')
    if not os.path.exists(out):
        agg.broken.append('c13.py produced no report: ' + r.stdout[-1500:])
    else:
        rep = json.load(open(out))
        rep['rc'] = 0
        agg.add([rep])
    rule = ('Hypothesis (seeded by VERIF_SEED) generates command lines over category (valid/invalid/missing), nuclide (published, unpublished, prefix-extended, cross-category, missing), level, mode 0..26, '
            'window (none/valid/inverted/one-sided/beyond e0; on capable and non-capable modes), seed, count, activity (none/positive/0/negative), MDL options (valid and invalid), basename as flag / '
            'positional / missing, unknown option, option with missing value, stray parameter; accepted lines: exactly N records with ids 0..N-1, each textually identical to api_ref (README-style API '
            'program on std::default_random_engine(seed)), second run byte-identical, companion file reports effective settings and @status=0; refused lines: no record, no @status=0; for a sample of '
            'accepted lines an LD_PRELOAD shim kills the process before EVERY write of the run: @status=0 present => event file complete; '
            'a systematic pass runs every mutation kind x variant on three valid lines and 30 ACCEPTED lines that carry every real-valued setting with a decimal value, every MDL species spelling and rank, short and long option names and the three logging levels; '
            'non-trivial & distinct = distinct normalised command lines x verdict, plus each (line, kill point)')
    return verdict(agg, tier, t0, rule, ['expected verdict = line is well-formed AND the library API (api_ref) accepts the same settings AND the nuclide is in the resource list of its category',
                                         'kill points are write-syscall granular; the exit status of refused lines is not asserted',
                                         'with --activity the API reference draws the event time from the same engine after each shot'], min_eval=100)


def check_C12(tier):
    import re
    t0 = time.time()
    agg = Agg('C12')
    b = compile_bin('threads', ['checks/threads.cc'], 'fast', inc=[vlib.build_ref()])
    base = ['--seed', str(seed()), '--tier', tier, '--known', known_tsv('C12')]
    agg.add(run_native(b, base + ['--mode', 'kernel'], NCPU, 'C12-kernel'))
    agg.add(run_native(b, base + ['--mode', 'gen'], NCPU, 'C12-gen'))
    agg.add(run_native(b, base + ['--mode', 'lockstep'], NCPU, 'C12-lockstep', extra_env=_ga_env()))
    agg.add(run_native(b, base + ['--mode', 'free', '--cases', '0'], NCPU, 'C12-free', extra_env=_ga_env()))
    # free-running under ThreadSanitizer (first-use initialisation included: each process starts cold)
    bt = compile_bin('threads', ['checks/threads.cc'], 'tsan', inc=[vlib.build_ref()])
    tlog = os.path.join(BUILD, 'run', 'C12-tsanlog')
    import shutil, glob
    shutil.rmtree(tlog, ignore_errors=True)
    os.makedirs(tlog)
    reps = run_native(bt, base + ['--mode', 'free', '--cases', '160' if tier == 'thorough' else '32'], NCPU, 'C12-tsan', extra_env=dict(_ga_env(), TSAN_OPTIONS='halt_on_error=0:log_path=' + os.path.join(tlog, 'tsan')))
    tsan_text = ''.join(open(f, errors='replace').read() for f in glob.glob(os.path.join(tlog, 'tsan.*')))
    for r in reps[:1]:
        r['stderr'] = r.get('stderr', '') + tsan_text
    races = {}
    for r in reps:
        for blk in re.findall(r'WARNING: ThreadSanitizer: data race.*?(?=\n\n|SUMMARY)', r.get('stderr', ''), re.S):
            m = re.search(r'#\d+ (bxdecay0::[^\n]*?) (/[^\s]*bxdecay0/[^\s:]+:\d+)', blk)
            if m:
                races.setdefault(re.sub(r'^.*/', '', m.group(2)), m.group(1)[:120])
        for m in re.finditer(r'SUMMARY: ThreadSanitizer: data race ([^\n]*)', r.get('stderr', '')):
            loc = m.group(1)
            if '/bxdecay0/' in loc:
                races.setdefault(re.sub(r'^.*/', '', loc.split(' in ')[0]), loc.split(' in ')[-1][:120])
        r['rc'] = 0 if r.get('rc') in (0, 66) else r.get('rc')  # TSan exits 66 when it reported something
    agg.add(reps)
    for loc, fn in sorted(races.items()):
        path = os.path.join(REPLAY, 'C12-tsan-%s.txt' % re.sub(r'[^A-Za-z0-9_.]', '_', loc))
        open(path, 'w').write('ThreadSanitizer data race at %s in %s\nreproduce: ./build/bin/tsan/threads --mode free --cases 32 --shard 0 --nshards 1 --out /dev/null\n' % (loc, fn))
        agg.failures.append({'sig': 'C12|tsan|data-race:%s' % loc, 'msg': 'ThreadSanitizer: data race in bxdecay0 code at %s (%s) while generators run on different threads' % (loc, fn), 'replay': path})
    rule = ('schedules, not timing: guarded schedule points in decay0_gauss hand control to a cooperative scheduler, so that exactly one thread runs between two points in a generated order; '
            'kernel level: ALL interleavings of 2 threads x 1 decay0_gauss call (252 per pair of integrand kinds, 9 pairs) and, thorough, 2x2 calls (48620 per assignment), plus random schedules for 2-3 '
            'threads x 1-2 calls over integrands that reach / miss the tolerance; generator level: 2-4 decay0_generator instances (modes whose quadratures miss the tolerance) initialised and shot on '
            'threads under random schedules; lock-step level: 2-3 generators strictly serialised with control handed over at the deviate requests (the harness owns the deviate source), over every published background nuclide and 24 double-beta configurations, pairs chosen so that nuclides reaching the same helper routine of the reference call graph meet, every entry with itself, plus random pairs/triples; the gen workloads also free-running under ThreadSanitizer after a start barrier; oracle: recording GSL handler never invoked (GSL\'s default aborts), handler '
            'restored after join, results bit-identical to a sequential run, no TSan race in bxdecay0 frames; non-trivial & distinct = schedules where two save/restore windows overlap and at least one quadrature misses its tolerance')
    return verdict(agg, tier, t0, rule, ['only the schedule points in gauss.cc are controlled; other shared state is left to TSan\'s happens-before analysis under free-running threads',
                                         'TSan cannot see the handler pointer inside the uninstrumented libgsl: that part is decided by the forced schedules'],
                   extra_cov={'exhaustive': True, 'exhaustive_note': 'the 2x1 kernel-level interleavings are enumerated completely; everything else is sampling'}, min_eval=500)


def _g4bin():
    ext = os.path.join(REPO, 'extensions/bxdecay0_g4')
    srcs = ['checks/g4check.cc'] + [os.path.join(ext, 'bxdecay0_g4', f) for f in ('primary_generator_action.cc', 'unique_point_vertex_generator.cc', 'vertex_generator_interface.cc')]
    # the stand-in directory comes first so that its trivial messenger headers shadow the real UI layer
    return compile_bin('g4check', srcs, 'fast', inc=[os.path.join(ROOT, 'g4stub'), ext])


def check_C17(tier):
    t0 = time.time()
    b = _g4bin()
    cases = '400000' if tier == 'thorough' else '40000'
    agg = Agg('C17')
    agg.add(run_native(b, ['--seed', str(seed()), '--cases', cases, '--known', known_tsv('C17')], NCPU, 'C17'))
    rule = ('case = a valid request (published background name or one of 10 valid DBD triples / any published isotope at level 0 mode 1, seed, 1-4 events, optional MDL incl. rectangular cut) with 0-2 mutations '
            '(bad/missing category, unpublished / prefix-extended / cross-category / empty nuclide, seed 0 or negative, mode outside 1..24 or another mode, level -1/9/17/99, valid / inverted window, bad MDL label) x '
            'vertex generator (none, unique point, scripted sequence, exhausted); the extension sources are compiled unchanged against the Geant4 stand-in; oracle: the core tools on the same request '
            '(driver-style catalogue checks + decay0_generator::initialize on std::default_random_engine(seed)): core refuses <=> action refuses (AbortRun or exception, no primaries); accepted: one primary per '
            'particle in order, species <-> definition, momentum/MeV and time/second equal to 1e-12, common vertex from the vertex generator (origin if none); '
            'distinct = (outcome, mutation class, category, nuclide, vertex kind)')
    return verdict(agg, tier, t0, rule, ['decided against a minimal stand-in for G4ThreeVector, G4ParticleGun (protected members the extension resets, the setters it calls, GeneratePrimaryVertex appending to the event), '
                                         'particle definitions, CLHEP unit constants (MeV=1, second=1e9), G4RunManager::AbortRun (recorded), G4Exception (recorded), G4Event, trivial messenger headers',
                                         'for the seed only "core refuses => action refuses" is asserted (the extension documents seed >= 1)'], min_eval=5000)


def check_C08(tier):
    """sanitizer builds (ASan+UBSan+_GLIBCXX_ASSERTIONS) of the generation drivers + structure-aware libFuzzer target"""
    t0 = time.time()
    agg = Agg('C08')
    thorough = tier == 'thorough'
    # (a) C04 / C03 / C05 drivers against the sanitized library
    extra04 = ['--bkg_evts', '20000' if thorough else '1200', '--dbd_evts', '1500' if thorough else '120', '--lowevts', '30000' if thorough else '1500', '--climb', '20000' if thorough else '2000']
    agg.add(_gencheck('C04', tier if thorough else 'quick', 'san', extra04, tag='C08-c04'), crash_prop='C08')
    agg.add(_gencheck('C05', 'quick', 'san', ['--evts', '6000' if thorough else '600'], tag='C08-c05'), crash_prop='C08')
    if thorough:
        # the remaining generation-path drivers against the sanitized library (C01/C02 differential, C07 histories, C10 operations)
        b = compile_bin('refdiff', ['checks/refdiff.cc'], 'san', ref=True)
        agg.add(run_native(b, ['--prop', 'C01', '--seed', str(seed()), '--cases', '3000', '--known', known_tsv('C01')], NCPU, 'C08-c01'), crash_prop='C08')
        agg.add(run_native(b, ['--prop', 'C02', '--seed', str(seed()), '--grid', 'strat', '--evts', '100', '--known', known_tsv('C02')], NCPU, 'C08-c02'), crash_prop='C08')
        b = compile_bin('history', ['checks/history.cc'], 'san', libs=['-lrapidcheck'], inc=[vlib.build_ref()])
        agg.add(run_native(b, ['--seed', str(seed()), '--cases', '300'], NCPU, 'C08-c07'), crash_prop='C08')
    # post-generation operations (C10 driver: op objects re-configured and re-used across events of different layouts) in both tiers
    b = compile_bin('mdlcheck', ['checks/mdlcheck.cc'], 'san')
    agg.add(run_native(b, ['--seed', str(seed()), '--cases', '400000' if thorough else '60000', '--breadcrumb'], NCPU, 'C08-c10'), crash_prop='C08')
    # semantic failures of the piggy-backed drivers belong to their own properties: keep only sanitizer findings here
    agg.failures = [f for f in agg.failures if '|crash:' in f['sig']]
    agg.known = {}
    # (a') uninitialised reads: no sanitizer available here reports the read of an uninitialised scalar (MemorySanitizer needs an instrumented C++
    # library).  The C04 driver is run against two builds of the library that differ ONLY in how automatic variables start out (clang
    # -ftrivial-auto-var-init=zero / =pattern); every (configuration, tape) must give the same event, bit for bit, in both
    _uninit_differential(agg, thorough)
    # (b) fuzz_shoot
    fz = _fuzz('fuzz_shoot', ['fuzz/fuzz_shoot.cc'], 'C08', secs=(600 if thorough else 25), jobs=NCPU, agg=agg)
    # the tabulated-spectra samplers on every table their loaders accept (rows that end below 1, slivers, one-node tables): the C15 target
    # doubles as a generation-path target here (its semantic traps are C15's business, but any trap on the unchanged tree is one too many)
    fz.update(_fuzz('fuzz_ga', ['fuzz/fuzz_ga.cc'], 'C08', secs=(120 if thorough else 10), jobs=NCPU, agg=agg, max_len=4096))
    rule = ('cases = (configuration, steered tape, event reuse / pre-fill) from the C04/C05 drivers and (operation, event sequence) from the C10 driver re-run against the ASan+UBSan+_GLIBCXX_ASSERTIONS build, plus the '
            'structure-aware libFuzzer target fuzz_shoot (bytes -> category, name, level, mode, window, reuse pattern, MDL op, tape) and the gA sampler target fuzz_ga (loader-accepted tables + deviates); oracle = sanitizers, sharpened by red zones: a guarded layout hook puts 16 unused bytes before, between and after the fixed-size spectrum tables of bbpars and the drivers poison them (ASAN_POISON_MEMORY_REGION) while a generator is initialised, so an index one before / past a table is reported although it stays inside the object; plus an uninitialised-read differential: the C04 driver against two builds of the library that differ only in how automatic variables start out (zero / bit pattern) must give bit-identical events for every (configuration, tape); '
            'distinct = (configuration, path signature, tail class) for the drivers + libFuzzer corpus units')
    return verdict(agg, tier, t0, rule, ['sanitizers as oracle: ASan, UBSan (-fno-sanitize-recover), _GLIBCXX_ASSERTIONS; leak detection off',
                                         'documented rejections (C++ exceptions) are not failures'], extra_cov=fz, min_eval=1000)


def replay(prop, path):
    """plain re-execution of a saved failing case, bypassing every generator"""
    j = json.load(open(path)) if path.endswith('.json') else {}
    if prop in ('C01', 'C02'):
        b = compile_bin('refdiff', ['checks/refdiff.cc'], 'fast', ref=True)
        r = subprocess.run([b, '--prop', prop, '--replay', path], env=run_env())
        return r.returncode
    if prop in ('C03', 'C04', 'C05'):
        build = vlib.build_ref()
        b = compile_bin('gencheck', ['checks/gencheck.cc'], 'fast', inc=[build])
        r = subprocess.run([b, '--prop', prop, '--replay', path], env=run_env())
        return r.returncode
    if prop in ('C07', 'C09'):
        nm, src = {'C07': ('history', 'checks/history.cc'), 'C09': ('proto', 'checks/proto.cc')}[prop]
        b = compile_bin(nm, [src], 'fast', libs=['-lrapidcheck', '-rdynamic'] if prop == 'C09' else ['-lrapidcheck'], inc=[vlib.build_ref()])
        r = subprocess.run([b, '--replay', path], env=run_env())
        return r.returncode
    if prop == 'C11':
        b = compile_bin('readercheck', ['checks/readercheck.cc'], 'fast', libs=['-lrapidcheck'])
        return subprocess.run([b, '--replay', path, '--workdir', os.path.join(BUILD, 'run')], env=run_env()).returncode
    if prop == 'C16':
        b = compile_bin('kernels', ['checks/kernels.cc'], 'fast')
        return subprocess.run([b, '--replay', path], env=run_env()).returncode
    if prop in ('C15', 'C08') and path.endswith('.bin'):
        name = os.path.basename(path).split('-')[1]
        src = dict((n, s2) for n, s2, _ in C15_TARGETS).get(name, 'fuzz/%s.cc' % name)
        b = compile_bin(name, [src], 'fuzz', inc=[os.path.join(ROOT, 'fuzz'), vlib.build_ref()])
        return subprocess.run([b, path], env=run_env()).returncode
    if prop == 'C14':
        b = compile_bin('gacheck', ['checks/gacheck.cc'], 'san')
        return subprocess.run(['python3-vt', os.path.join(ROOT, 'py/c14.py'), b, 'quick', os.path.join(BUILD, 'run', 'c14-replay.json'), '--replay', path], env=run_env()).returncode
    if prop == 'C13':
        bdir = vlib.build_variant('fast')
        api = compile_bin('api_ref', ['checks/api_ref.cc'], 'fast')
        return subprocess.run(['python3-vt', os.path.join(ROOT, 'py/c13.py'), os.path.join(bdir, 'bxdecay0-run'), api, _killshim(), 'quick', os.path.join(BUILD, 'run', 'c13-replay.json'), '--replay', path], env=run_env()).returncode
    if prop == 'C12':
        b = compile_bin('threads', ['checks/threads.cc'], 'fast', inc=[vlib.build_ref()])
        return subprocess.run([b, '--replay', path], env=run_env()).returncode
    if prop == 'C17':
        return subprocess.run([_g4bin(), '--replay', path], env=run_env()).returncode
    if prop == 'C08' and path.endswith('.json'):
        # a sanitizer abort of one of the piggy-backed drivers: the breadcrumb written before the case is the reproducer
        if j.get('driver') == 'mdlcheck':
            b = compile_bin('mdlcheck', ['checks/mdlcheck.cc'], 'san')
            return subprocess.run([b, '--replay', path, '--breadcrumb'], env=run_env()).returncode
        b = compile_bin('gencheck', ['checks/gencheck.cc'], 'san', inc=[vlib.build_ref()])
        return subprocess.run([b, '--prop', 'C04', '--replay', path], env=dict(run_env(), **_ga_env())).returncode
    if prop == 'C10':
        b = compile_bin('mdlcheck', ['checks/mdlcheck.cc'], 'fast')
        return subprocess.run([b, '--replay', path], env=run_env()).returncode
    if prop == 'C06':
        print('C06 replay files name a grid point; the grid is enumerated completely: re-run ./check C06 quick')
        return check_C06('quick')
    print('no replayer for', prop)
    return 2


def setup_all():
    """compile everything the quick checks need so that they start fast"""
    for v in ('fast', 'san', 'fuzz'):
        vlib.build_variant(v)
    refd = vlib.build_ref()
    compile_bin('refdiff', ['checks/refdiff.cc'], 'fast', ref=True)
    compile_bin('gridcheck', ['checks/gridcheck.cc'], 'fast', ref=True)
    compile_bin('gencheck', ['checks/gencheck.cc'], 'fast', inc=[refd])
    compile_bin('gencheck', ['checks/gencheck.cc'], 'san', inc=[refd])
    compile_bin('gencheck', ['checks/gencheck.cc'], 'ivz', inc=[refd])
    compile_bin('gencheck', ['checks/gencheck.cc'], 'ivp', inc=[refd])
    compile_bin('proto', ['checks/proto.cc'], 'fast', libs=['-lrapidcheck', '-rdynamic'])
    compile_bin('history', ['checks/history.cc'], 'fast', libs=['-lrapidcheck'], inc=[refd])
    compile_bin('readercheck', ['checks/readercheck.cc'], 'fast', libs=['-lrapidcheck'])
    compile_bin('mdlcheck', ['checks/mdlcheck.cc'], 'fast')
    compile_bin('mdlcheck', ['checks/mdlcheck.cc'], 'san')
    compile_bin('kernels', ['checks/kernels.cc'], 'fast')
    compile_bin('fuzz_shoot', ['fuzz/fuzz_shoot.cc'], 'fuzz', inc=[os.path.join(ROOT, 'fuzz'), refd])
    for name, src, _ in C15_TARGETS:
        compile_bin(name, [src], 'fuzz', inc=[os.path.join(ROOT, 'fuzz'), refd])
    vlib.build_variant('tsan')
    compile_bin('threads', ['checks/threads.cc'], 'fast', inc=[refd])
    compile_bin('threads', ['checks/threads.cc'], 'tsan', inc=[refd])
    compile_bin('api_ref', ['checks/api_ref.cc'], 'fast')
    compile_bin('listdump', ['checks/listdump.cc'], 'fast')
    _killshim()
    compile_bin('gacheck', ['checks/gacheck.cc'], 'san')
    _g4bin()
