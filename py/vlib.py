"""vlib.py -- orchestration shared by all checks (build, shard, aggregate, evidence, verdict)."""
import sys, os, json, time, subprocess, hashlib, glob, shutil, re, fnmatch
from concurrent.futures import ThreadPoolExecutor

ROOT = os.path.dirname(os.path.dirname(os.path.abspath(__file__)))
REPO = os.environ.get('VERIF_REPO', '/repo')
BUILD = os.path.join(ROOT, 'build')
EVID = os.path.join(ROOT, 'evidence')
REPLAY = os.path.join(ROOT, 'replay')
NCPU = int(os.environ.get('VERIF_JOBS', '16'))
GUARD = '-DBXDECAY0_VERIF'

FLAGS = {
    'san': ['clang++', '-std=gnu++17', '-O1', '-g', '-fno-omit-frame-pointer', '-fsanitize=address,undefined',
            '-fno-sanitize-recover=undefined', '-D_GLIBCXX_ASSERTIONS', GUARD],
    'fuzz': ['clang++', '-std=gnu++17', '-O1', '-g', '-fno-omit-frame-pointer', '-fsanitize=fuzzer,address,undefined',
             '-fno-sanitize-recover=undefined', '-D_GLIBCXX_ASSERTIONS', GUARD],
    'fast': ['g++', '-std=gnu++17', '-O2', '-g', GUARD],
    'tsan': ['clang++', '-std=gnu++17', '-O1', '-g', '-fno-omit-frame-pointer', '-fsanitize=thread', GUARD],
    'cov': ['g++', '-std=gnu++17', '-O0', '-g', '--coverage', GUARD],
    'ivz': ['clang++', '-std=gnu++17', '-O1', '-g', '-ftrivial-auto-var-init=zero', '-enable-trivial-auto-var-init-zero-knowing-it-will-be-removed-from-clang', GUARD],
    'ivp': ['clang++', '-std=gnu++17', '-O1', '-g', '-ftrivial-auto-var-init=pattern', GUARD],
}
FFLAGS = ['-std=legacy', '-ffixed-line-length-132', '-fd-lines-as-comments', '-fdefault-real-8', '-fdefault-double-8',
          '-fno-automatic', '-O1', '-g', '-w']


class Broken(Exception):
    pass


def log(*a):
    print(*a, file=sys.stderr, flush=True)


def sh(cmd, **kw):
    r = subprocess.run(cmd, stdout=subprocess.PIPE, stderr=subprocess.STDOUT, text=True, **kw)
    if r.returncode != 0:
        raise Broken('command failed: %s\n%s' % (' '.join(cmd) if isinstance(cmd, list) else cmd, r.stdout[-4000:]))
    return r.stdout


def seed():
    try:
        return int(os.environ.get('VERIF_SEED', '1'))
    except ValueError:
        return 1


def file_hash(paths, extra=''):
    h = hashlib.sha256(extra.encode())
    for p in paths:
        h.update(p.encode())
        try:
            with open(p, 'rb') as f:
                h.update(f.read())
        except OSError:
            h.update(b'<missing>')
    return h.hexdigest()


def run_env():
    e = dict(os.environ)
    e['BXDECAY0_RESOURCE_DIR'] = os.path.join(REPO, 'resources')
    e['VERIF_REPO'] = REPO
    e.setdefault('ASAN_OPTIONS', 'detect_leaks=0:abort_on_error=0:allocator_may_return_null=1:detect_stack_use_after_return=0')
    e.setdefault('UBSAN_OPTIONS', 'print_stacktrace=1')
    e.setdefault('TSAN_OPTIONS', 'halt_on_error=0:second_deadlock_stack=1')
    return e


# ------------------------------------------------------------------ builds
_built = set()


def build_variant(v):
    if v in _built:
        return os.path.join(BUILD, v)
    t = time.time()
    r = subprocess.run([os.path.join(ROOT, 'build.sh'), v], stdout=subprocess.PIPE, stderr=subprocess.STDOUT, text=True,
                       env=dict(os.environ, VERIF_REPO=REPO))
    if r.returncode != 0:
        raise Broken('build of /repo (variant %s) failed:\n%s' % (v, r.stdout[-6000:]))
    _built.add(v)
    log('[build] variant %s ready in %.1fs' % (v, time.time() - t))
    return os.path.join(BUILD, v)


def build_ref():
    """Fortran reference objects from the repo's own copy of decay0_2020-04-20.for"""
    d = os.path.join(BUILD, 'ref')
    os.makedirs(d, exist_ok=True)
    src = os.path.join(REPO, 'resources/code/decay0/decay0_2020-04-20.for')
    deps = [src] + [os.path.join(ROOT, 'ref', f) for f in ('prep_reference.py', 'mkdict.py', 'refglue.f', 'shim_c.c')]
    hv = file_hash(deps + sorted(glob.glob(os.path.join(REPO, 'bxdecay0/*low.h'))), ' '.join(FFLAGS) + 'so-v4')
    stamp = os.path.join(d, 'stamp')
    if os.path.exists(stamp) and open(stamp).read() == hv:
        return d
    sh(['python3', os.path.join(ROOT, 'ref/prep_reference.py'), src, os.path.join(d, 'decay0_ref.f')])
    sh(['python3', os.path.join(ROOT, 'ref/prep_reference.py'), src, os.path.join(d, 'decay0_refh.f'), '--harmonise'])
    sh(['python3', os.path.join(ROOT, 'ref/mkdict.py'), os.path.join(d, 'decay0_ref.f'), os.path.join(d, 'refdict.inc'), os.path.join(d, 'reflow.f'), os.path.join(d, 'reflow.inc'), REPO])
    sh(['gfortran-12'] + FFLAGS + ['-fPIC', '-c', os.path.join(d, 'reflow.f'), '-o', os.path.join(d, 'reflow.o')])
    sh(['gfortran-12'] + FFLAGS + ['-fPIC', '-c', os.path.join(ROOT, 'ref/refglue.f'), '-o', os.path.join(d, 'refglue.o')])
    sh(['gcc', '-O1', '-g', '-fPIC', '-c', os.path.join(ROOT, 'ref/shim_c.c'), '-o', os.path.join(d, 'shim_c.o')])
    # each flavour of the reference lives in its own shared object (loaded RTLD_LOCAL, linked -Bsymbolic) so that its
    # static storage can be snapshotted/restored and the two flavours do not share common blocks
    for fl in ('decay0_ref', 'decay0_refh'):
        sh(['gfortran-12'] + FFLAGS + ['-fPIC', '-c', os.path.join(d, fl + '.f'), '-o', os.path.join(d, fl + '.o')])
        sh(['gfortran-12', '-shared', '-Wl,-Bsymbolic', '-Wl,-z,now', '-o', os.path.join(d, 'lib' + fl + '.so'), os.path.join(d, fl + '.o'),
            os.path.join(d, 'refglue.o'), os.path.join(d, 'reflow.o'), os.path.join(d, 'shim_c.o'), '-lgsl', '-lgslcblas', '-lm'])
    open(stamp, 'w').write(hv)
    return d


def compile_bin(name, srcs, variant, ref=False, extra=None, libs=None, link_lib=True, inc=None):
    """Compile a native driver against build/<variant>/libBxDecay0.so.  Rebuilt when its sources, the engine, or
    any repo header changed."""
    bdir = build_variant(variant) if link_lib else os.path.join(BUILD, variant)
    out_dir = os.path.join(BUILD, 'bin', variant)
    os.makedirs(out_dir, exist_ok=True)
    out = os.path.join(out_dir, name)
    srcs = [s if os.path.isabs(s) else os.path.join(ROOT, s) for s in srcs]
    refd = None
    if ref:
        refd = build_ref()
        srcs = srcs + [os.path.join(ROOT, 'ref/refshim.cc')]
    hdrs = sorted(glob.glob(os.path.join(REPO, 'bxdecay0/*.h')) + glob.glob(os.path.join(ROOT, 'engine/*.hpp'))
                  + glob.glob(os.path.join(ROOT, 'checks/*.hpp')) + glob.glob(os.path.join(ROOT, 'fuzz/*.hpp')) + glob.glob(os.path.join(ROOT, 'ref/*.hpp'))
                  + glob.glob(os.path.join(REPO, 'programs/*.hpp')) + glob.glob(os.path.join(ROOT, 'g4stub/**/*'), recursive=True))
    hdrs = [h for h in hdrs if os.path.isfile(h)]
    if refd:
        hdrs.append(os.path.join(refd, 'refdict.inc'))
    flags = list(FLAGS[variant]) + (extra or [])
    hv = file_hash(srcs + hdrs, ' '.join(flags) + REPO + str(libs) + str(inc))
    stamp = out + '.stamp'
    if os.path.exists(out) and os.path.exists(stamp) and open(stamp).read() == hv:
        return out
    cmd = flags + ['-I', REPO, '-I', bdir, '-I', os.path.join(ROOT, 'engine'), '-I', os.path.join(ROOT, 'checks')]
    for i in (inc or []):
        cmd += ['-I', i]
    if refd:
        cmd += ['-I', refd]
    cmd += srcs
    if refd:
        cmd += ['-rdynamic', '-ldl', '-DREFDIR_DEFAULT="%s"' % refd]
    if link_lib:
        cmd += ['-L', bdir, '-lBxDecay0', '-Wl,-rpath,' + bdir]
    cmd += ['-lgsl', '-lgslcblas', '-lm', '-lpthread'] + (libs or []) + ['-o', out]
    t = time.time()
    sh(cmd)
    open(stamp, 'w').write(hv)
    log('[build] %s (%s) compiled in %.1fs' % (name, variant, time.time() - t))
    return out


# ------------------------------------------------------------------ known findings
def load_known():
    p = os.path.join(ROOT, 'known_findings.json')
    if not os.path.exists(p):
        return []
    return json.load(open(p)).get('findings', [])


def known_tsv(prop):
    """patterns of 'known' (not 'fixed') findings for the native drivers"""
    os.makedirs(BUILD, exist_ok=True)
    p = os.path.join(BUILD, 'known_%s.tsv' % prop)
    with open(p, 'w') as f:
        for k in load_known():
            if k.get('status') == 'known' and k.get('property') == prop:
                for pat in k.get('match', {}).get('sig', []):
                    f.write('%s\t%s\t%s\n' % (prop, k['id'], pat))
    return p


# ------------------------------------------------------------------ sharded native runs
def run_native(binpath, args, nshards, tag, timeout=None, per_shard_args=None, cwd=None, extra_env=None):
    """run nshards copies of a native driver; returns list of report dicts (crashed shards yield a pseudo report)"""
    outdir = os.path.join(BUILD, 'run', tag)
    shutil.rmtree(outdir, ignore_errors=True)
    os.makedirs(outdir)
    os.makedirs(REPLAY, exist_ok=True)
    env = run_env()
    env.update(extra_env or {})

    def one(i):
        out = os.path.join(outdir, 'shard%d.json' % i)
        cmd = [binpath] + args + ['--shard', str(i), '--nshards', str(nshards), '--out', out, '--replaydir', REPLAY]
        if per_shard_args:
            cmd += per_shard_args(i)
        t = time.time()
        try:
            r = subprocess.run(cmd, stdout=subprocess.PIPE, stderr=subprocess.PIPE, env=env, timeout=timeout, cwd=cwd)
            rc, so, se = r.returncode, r.stdout.decode('latin-1'), r.stderr.decode('latin-1')
        except subprocess.TimeoutExpired as e:
            rc, so, se = -999, (e.stdout or b'').decode('latin-1'), (e.stderr or b'').decode('latin-1')
        rep = None
        if os.path.exists(out):
            try:
                rep = json.load(open(out))
            except Exception as ex:  # noqa
                rep = None
        if rep is None:
            rep = {'property': '', 'evaluations': 0, 'labels': {}, 'counters': {}, 'known': {}, 'nontrivial': [], 'samples': [], 'failures': []}
            rep['crashed'] = True
        rep['rc'] = rc
        rep['stdout'] = so[-3000:]
        rep['stderr'] = se[-6000:]
        rep['cur'] = out + '.cur' if os.path.exists(out + '.cur') else None
        rep['wall'] = time.time() - t
        rep['shard'] = i
        return rep

    with ThreadPoolExecutor(max_workers=nshards) as ex:
        return list(ex.map(one, range(nshards)))


def san_summary(stderr):
    m = re.search(r'SUMMARY: (\S+): (\S+) ([^\n]*)', stderr)
    if m:
        loc = re.sub(r'^.*/', '', m.group(3).split(' in ')[0].strip())
        loc = re.sub(r':\d+(:\d+)?$', '', loc) if False else loc
        return m.group(2), loc
    m = re.search(r'([^\s:]+:\d+:\d+): runtime error: ([^\n]*)', stderr)
    if m:
        return 'ubsan', re.sub(r'^.*/', '', m.group(1)) + ' ' + m.group(2)[:60]
    m = re.search(r'Assertion[^\n]*failed', stderr)
    if m:
        return 'assertion', m.group(0)[:120]
    return None, None


class Agg:
    def __init__(self, prop):
        self.prop = prop
        self.evaluations = 0
        self.labels = {}
        self.counters = {}
        self.known = {}
        self.nontrivial = set()
        self.samples = []
        self.failures = []   # dicts {sig,msg,replay}
        self.broken = []
        self.extra = {}

    def add(self, reports, crash_prop=None):
        for r in reports:
            self.evaluations += r.get('evaluations', 0)
            for k, v in r.get('labels', {}).items():
                self.labels[k] = self.labels.get(k, 0) + v
            for k, v in r.get('counters', {}).items():
                self.counters[k] = self.counters.get(k, 0) + v
            for k, v in r.get('known', {}).items():
                self.known[k] = self.known.get(k, 0) + v
            self.nontrivial.update(r.get('nontrivial', []))
            for s in r.get('samples', []):
                if len(self.samples) < 8:
                    self.samples.append(s)
            self.failures += r.get('failures', [])
            rc = r.get('rc', 0)
            if r.get('crashed') or rc not in (0,):
                self._crash(r, crash_prop or self.prop)

    def _crash(self, r, prop):
        kind, loc = san_summary(r.get('stderr', ''))
        if kind is None and 'HARNESS-ERROR' in r.get('stdout', ''):
            self.broken.append('shard %s: %s' % (r.get('shard'), r.get('stdout', '').strip()[-500:]))
            return
        if kind is None and r.get('rc') == -999:
            self.broken.append('shard %s: timeout' % r.get('shard'))
            return
        if kind is None and r.get('rc', 0) in (0,):
            return
        if kind is None:
            kind, loc = 'abnormal-exit', 'rc=%s' % r.get('rc')
        cur = r.get('cur')
        cfg = ''
        replay = None
        if cur:
            try:
                cj = json.load(open(cur))
                cfg = cj.get('cfgsig', '')
                replay = os.path.join(REPLAY, '%s-crash-%s.json' % (prop, hashlib.sha1((cfg + kind + str(loc)).encode()).hexdigest()[:12]))
                cj['stderr_tail'] = r.get('stderr', '')[-3000:]
                json.dump(cj, open(replay, 'w'), indent=1)
            except Exception as ex:  # noqa
                replay = None
        sig = '%s|%s|crash:%s:%s' % (prop, cfg, kind, loc)
        if replay is None:
            replay = os.path.join(REPLAY, '%s-crash-%s.txt' % (prop, hashlib.sha1(sig.encode()).hexdigest()[:12]))
            open(replay, 'w').write(sig + '\n' + r.get('stderr', '')[-6000:])
        self.failures.append({'sig': sig, 'msg': 'sanitizer/abort: %s at %s' % (kind, loc), 'replay': replay})


def match_known(prop, sig):
    for k in load_known():
        if k.get('status') == 'known' and k.get('property') == prop:
            for pat in k.get('match', {}).get('sig', []):
                if fnmatch.fnmatchcase(sig, pat):
                    return k
    return None


def write_evidence(prop, tier, level, coverage, wall, violations, assumptions):
    os.makedirs(EVID, exist_ok=True)
    ev = {'property_id': prop, 'tier': tier, 'seed': seed(), 'level': level, 'coverage': coverage,
          'assumptions': assumptions, 'wall_s': round(wall, 2), 'violations': violations}
    tmp = os.path.join(EVID, prop + '.json.tmp')
    json.dump(ev, open(tmp, 'w'), indent=1)
    os.replace(tmp, os.path.join(EVID, prop + '.json'))


def verdict(agg, tier, t0, rule, assumptions, level='exploration', extra_cov=None, min_eval=1):
    """prints KNOWN-FINDING / VIOLATION lines, writes evidence, returns exit code"""
    prop = agg.prop
    known_hits = {}
    new = []
    for f in agg.failures:
        k = match_known(prop, f['sig'])
        if k:
            known_hits.setdefault(k['id'], [k, 0])[1] += 1
        else:
            new.append(f)
    for kid, n in agg.known.items():
        for k in load_known():
            if k['id'] == kid:
                known_hits.setdefault(kid, [k, 0])[1] += n
    for kid, (k, n) in sorted(known_hits.items()):
        print('KNOWN-FINDING: property=%s %s [%s, matched %d cases this run]' % (prop, k['what'], kid, n))
    # dedupe new failures by signature
    seen = {}
    for f in new:
        seen.setdefault(f['sig'], f)
    cov = {'evaluations': agg.evaluations, 'distinct_nontrivial': len(agg.nontrivial), 'rule': rule,
           'samples': agg.samples[:8], 'class_histogram': dict(sorted(agg.labels.items())[:400]), 'counters': agg.counters,
           'known_findings_matched': {k: v[1] for k, v in known_hits.items()},
           'violations_found': [{'sig': f['sig'], 'msg': f['msg'], 'replay': f['replay']} for f in list(seen.values())[:50]]}
    cov.update(agg.extra)
    if extra_cov:
        cov.update(extra_cov)
    rc = 0
    if agg.broken:
        for b in agg.broken:
            log('[broken] ' + b)
        rc = 2
    if agg.evaluations < min_eval or len(agg.nontrivial) < 2:
        log('[broken] too few cases ran: evaluations=%d distinct_nontrivial=%d' % (agg.evaluations, len(agg.nontrivial)))
        rc = 2
    if seen:
        for sig, f in sorted(seen.items()):
            print('VIOLATION property=%s replay=%s' % (prop, f['replay']))
            print('  # %s -- %s' % (sig, f['msg'][:300]))
        rc = 1
    write_evidence(prop, tier, level, cov, time.time() - t0, len(seen), assumptions)
    print('%s %s: evaluations=%d distinct_nontrivial=%d violations=%d known=%d wall=%.1fs' %
          (prop, tier, agg.evaluations, len(agg.nontrivial), len(seen), len(known_hits), time.time() - t0))
    return rc


# ------------------------------------------------------------------ main
def main(argv):
    if len(argv) < 2:
        print('usage: check <ID> <quick|thorough> [--replay <file>]')
        return 2
    prop, tier = argv[0], argv[1]
    replay = None
    if '--replay' in argv:
        replay = argv[argv.index('--replay') + 1]
    import props
    fn = getattr(props, 'check_' + prop, None)
    if fn is None:
        print('unknown property', prop)
        return 2
    os.chdir(ROOT)
    try:
        if replay:
            return props.replay(prop, replay)
        return fn(tier)
    except Broken as b:
        log('[broken] %s' % b)
        return 2
