#!/usr/bin/env python3-vt
"""c13.py -- C13: bxdecay0-run output is reproducible, complete and equal to the library API's.
Hypothesis generates command lines; oracle = api_ref (README-style API program), re-run, completion marker, kill points.
usage: c13.py <bxdecay0-run> <api_ref> <killshim.so> <tier> <report.json> [--replay file]"""
import sys, os, json, subprocess, shutil, hashlib, time, re
from hypothesis import given, settings, seed, strategies as st, HealthCheck, Phase

RUN, APIREF, SHIM, TIER, OUT = sys.argv[1:6]
RUN_SAN = os.environ.get('VERIF_RUN_SAN')  # bxdecay0-run from the ASan/UBSan/_GLIBCXX_ASSERTIONS build (optional)
ROOT = os.path.dirname(os.path.dirname(os.path.abspath(__file__)))
REPO = os.environ.get('VERIF_REPO', '/repo')
SEED = int(os.environ.get('VERIF_SEED', '1'))
WORK = os.path.join(ROOT, 'build', 'run', 'c13')
shutil.rmtree(WORK, ignore_errors=True)
os.makedirs(WORK, exist_ok=True)
ENV = dict(os.environ, BXDECAY0_RESOURCE_DIR=os.path.join(REPO, 'resources'))
ENV.pop('BXDECAY0_DBD_GA_DATA_DIR', None)


def lis(name):
    return [l.split()[0] for l in open(os.path.join(REPO, 'resources/description', name)) if l.strip() and not l.startswith('#')]


BKG, DBD = lis('background_isotopes.lis'), lis('dbd_isotopes.lis')
WINDOW_MODES = {4, 5, 6, 8, 10, 13, 14, 15, 16, 19}
CHEAP_DBD = ['Mo100', 'Se82', 'Nd150', 'Cd106', 'Ru96', 'Zr96', 'Xe136', 'Ca48', 'Te130', 'Ge76']
STATS = {'lines': 0, 'accepted': 0, 'refused': 0, 'kill_cases': 0, 'kill_points': 0, 'nontrivial': set(), 'labels': {}, 'samples': [], 'failure': None}


def lab(k):
    STATS['labels'][k] = STATS['labels'].get(k, 0) + 1


# ---------------------------------------------------------------- command-line model
def build_argv(c, base):
    """returns (argv list, wellformed: bool, reason)"""
    a = []
    wf, why = True, ''
    lm = c.get('longmask', 0)   # which options are spelled with their long alias (bit k = k-th option below)

    def o(k, short, long_):
        return long_ if (lm >> k) & 1 else short

    def bad(r):
        nonlocal wf, why
        if wf:
            wf, why = False, r
    if c['category'] is not None:
        a += [o(0, '-c', '--decay-category'), c['category']]
        if c['category'] not in ('dbd', 'background'):
            bad('category')
    else:
        bad('no-category')
    if c['nuclide'] is not None:
        a += [c['nuclide_flag'], c['nuclide']]
    a += [o(1, '-s', '--seed'), str(c['seed']), o(2, '-n', '--nb-events'), str(c['count'])]
    if c.get('logging') is not None:
        a += [o(9, '-g', '--logging'), c['logging']]
        if c['logging'] not in ('mute', 'verbose', 'debug'):
            bad('logging')
    if c['seed'] < 0:
        bad('seed')
    if c['count'] < 1:
        bad('count')
    if c['category'] == 'dbd':
        if c['level'] is not None:
            a += [o(3, '-l', '--level'), str(c['level'])]
            if c['level'] < 0:
                bad('level')
        if c['mode'] is not None:
            a += [o(4, '-m', '--dbd-mode'), str(c['mode'])]
            if not (1 <= c['mode'] <= 24):
                bad('mode')
        else:
            bad('no-mode')
        if c['emin'] is not None:
            a += [o(5, '-e', '--dbd-emin'), repr(c['emin'])]
            if c['emin'] < 0:
                bad('negative-window')
        if c['emax'] is not None:
            a += [o(6, '-E', '--dbd-emax'), repr(c['emax'])]
            if c['emax'] < 0:
                bad('negative-window')
    if c['activity'] is not None:
        a += [o(7, '-a', '--activity'), repr(c['activity'])]
        if not (c['activity'] > 0):
            bad('activity')
    if c['mdl'] is not None:
        m = c['mdl']
        if m.get('particle') is not None:
            a += ['--pgop-mdl-particle', m['particle']]
        a += ['--pgop-mdl-rank', str(m['rank']), '--pgop-mdl-cone-phi', repr(m['phi']), '--pgop-mdl-cone-theta', repr(m['theta']), '--pgop-mdl-cone-aperture', repr(m['aperture'])]
    if c['extra'] == 'unknown-option':
        a += ['--frobnicate']
        bad('unknown-option')
    elif c['extra'] == 'stray-parameter':
        bad('stray-parameter')
    if c['basename_style'] == 'flag':
        a += [o(8, '-b', '--basename'), base]
    elif c['basename_style'] == 'positional':
        a += [base]
    else:
        bad('no-basename')
    if c['extra'] == 'stray-parameter':
        a += ['stray']
    if c['extra'] == 'missing-value':
        a += [c['missing_opt']]
        bad('missing-value')
    if c['nuclide'] is None:
        bad('no-nuclide')
    return a, wf, why


def api_args(c, out):
    a = ['out=' + out, 'category=' + str(c['category']), 'nuclide=' + str(c['nuclide']), 'seed=%d' % c['seed'], 'n=%d' % c['count']]
    if c['category'] == 'dbd':
        a += ['level=%d' % (c['level'] if c['level'] is not None else 0), 'mode=%d' % c['mode']]
        if c['emin'] is not None:
            a.append('emin=' + repr(c['emin']))
        if c['emax'] is not None:
            a.append('emax=' + repr(c['emax']))
    if c['activity'] is not None:
        a.append('activity=' + repr(c['activity']))
    if c['mdl'] is not None:
        m = c['mdl']
        a += ['mdl=1', 'mdl_particle=' + (m['particle'] if m.get('particle') is not None else ''), 'mdl_rank=%d' % m['rank'], 'mdl_phi=' + repr(m['phi']), 'mdl_theta=' + repr(m['theta']), 'mdl_aperture=' + repr(m['aperture'])]
    return a


def records(path):
    """split a .d0t file into records; returns list of (id, text)"""
    if not os.path.exists(path):
        return []
    txt = open(path, 'rb').read().decode('latin-1')
    recs = [r for r in txt.split('\n\n') if r.strip()]
    out = []
    for r in recs:
        head = r.strip().split('\n')[0].split()
        try:
            out.append((int(head[0]), r.strip()))
        except Exception:
            out.append((-1, r.strip()))
    return out


def run_cli(argv, extra_env=None, timeout=120, binary=None):
    e = dict(ENV)
    if extra_env:
        e.update(extra_env)
    try:
        r = subprocess.run([binary or RUN] + argv, stdout=subprocess.PIPE, stderr=subprocess.PIPE, env=e, timeout=timeout)
        return r.returncode, r.stderr.decode('latin-1')[-1500:]
    except subprocess.TimeoutExpired:
        return -999, 'timeout'


class Violation(Exception):
    def __init__(self, cls, msg):
        Exception.__init__(self, msg)
        self.cls = cls


def check_line(c, do_kill=False):
    t_line = time.time()
    try:
        return check_line1(c, do_kill)
    finally:
        dt = time.time() - t_line
        if dt > 2.0:
            STATS.setdefault('slow', []).append((round(dt, 1), ' '.join(build_argv(c, 'B')[0])[:300], do_kill))


def check_line1(c, do_kill=False):
    base = os.path.join(WORK, 'o%d' % (STATS['lines'] % 8))
    for ext in ('.d0t', '.d0c', '.ref', '-2.d0t', '-2.d0c'):
        if os.path.exists(base + ext):
            os.remove(base + ext)
    argv, wellformed, why = build_argv(c, base)
    STATS['lines'] += 1
    # a basename is re-used in practice: every third line finds the complete output of an EARLIER run under its basename (event file with two
    # records, companion file with other settings and the completion marker).  A run that is refused may leave both files untouched, or must leave
    # neither records nor marker; an accepted run must replace them
    stale = STATS['lines'] % 3 == 1 and c.get('basename_style') in ('flag', 'positional')
    STALE_T = b'0 0 Stale\n1\n1 0 0 0 1\n\n1 0 Stale\n1\n1 0 0 0 1\n\n'
    STALE_C = 'decay-category=background\nnuclide=Stale\nseed=99\nnb-events=2\n@status=0\n'
    if stale:
        open(base + '.d0t', 'wb').write(STALE_T)
        open(base + '.d0c', 'w').write(STALE_C)
        lab('stale-output-under-the-basename')
    # ---- expected verdict: well-formed line AND the API accepts the same settings
    expect_accept, reason, toall = False, why, None
    if wellformed:
        r = subprocess.run([APIREF] + api_args(c, base + '.ref'), stdout=subprocess.PIPE, stderr=subprocess.PIPE, env=ENV, timeout=300)
        out = r.stdout.decode('latin-1').strip()
        if r.returncode != 0 and not out:
            raise Violation('harness', 'api_ref died: ' + r.stderr.decode('latin-1')[-500:])
        expect_accept = out.startswith('ACCEPTED')
        reason = out[:160]
        if expect_accept:
            toall = out.split('toallevents=')[1]
    if RUN_SAN and (c['extra'] == 'missing-value' or STATS['lines'] % 4 == 0):
        rcs, errs = run_cli(argv, {'ASAN_OPTIONS': 'detect_leaks=0', 'UBSAN_OPTIONS': 'print_stacktrace=1'}, binary=RUN_SAN)
        lab('sanitized-run')
        if rcs not in (0, 1) or 'runtime error' in errs or 'AddressSanitizer' in errs or 'Assertion' in errs:
            m = re.search(r'(SUMMARY: [^\n]*|[^\n]*runtime error[^\n]*|[^\n]*Assertion[^\n]*failed[^\n]*)', errs)
            raise Violation('memory-error', 'sanitized bxdecay0-run (status %d): %s\n cmd: %s' % (rcs, m.group(1)[:300] if m else errs[-300:], ' '.join(argv)))
    rc, err = run_cli(argv)
    if rc == -999:
        raise Violation('hang', 'bxdecay0-run did not finish within 120 s: ' + ' '.join(argv))
    if rc < 0 or rc > 1:
        raise Violation('crash', 'bxdecay0-run died with status %d on: %s\n%s' % (rc, ' '.join(argv), err[-600:]))
    recs = records(base + '.d0t')
    info = open(base + '.d0c').read() if os.path.exists(base + '.d0c') else ''
    norm = 'cat=%s nuc=%s lvl=%s mode=%s win=%s act=%s mdl=%s extra=%s base=%s' % (c['category'], c['nuclide_class'], c['level'], c['mode'], c['window_class'], 'y' if c['activity'] is not None else 'n', 'y' if c['mdl'] else 'n', c['extra'], c['basename_style'])
    if not expect_accept:
        STATS['refused'] += 1
        lab('refused:' + (why or 'api'))
        if stale and os.path.exists(base + '.d0t') and open(base + '.d0t', 'rb').read() == STALE_T and info == STALE_C:
            STATS['nontrivial'].add('R|stale-untouched|' + norm)
            return      # refused before any file was opened: the earlier run's files are intact and consistent
        if recs:
            raise Violation('refused-but-events', 'request must be refused (%s) but %d event records were written: %s' % (reason, len(recs), ' '.join(argv)))
        if '@status=0' in info:
            raise Violation('refused-but-status', 'request must be refused (%s) but the companion file carries @status=0: %s' % (reason, ' '.join(argv)))
        STATS['nontrivial'].add('R|' + norm)
        return
    STATS['accepted'] += 1
    lab('accepted:' + str(c['category']))
    if c['mdl'] is not None:
        lab('accepted-with-mdl')
        if any(float(c['mdl'][k]) != int(c['mdl'][k]) for k in ('phi', 'theta', 'aperture')):
            lab('accepted-with-mdl-decimal-angle')
    if c.get('longmask'):
        lab('accepted-with-long-option-names')
    if rc != 0:
        raise Violation('accepted-but-fails', 'the API accepts these settings but bxdecay0-run exits %d: %s\n%s' % (rc, ' '.join(argv), err[-400:]))
    n = c['count']
    if len(recs) != n:
        raise Violation('record-count', 'asked for %d events, event file holds %d records: %s' % (n, len(recs), ' '.join(argv)))
    for i, (rid, _) in enumerate(recs):
        if rid != i:
            raise Violation('record-ids', 'record %d carries id %d: %s' % (i, rid, ' '.join(argv)))
    ref = records(base + '.ref')
    for i in range(n):
        if recs[i][1] != ref[i][1]:
            raise Violation('differs-from-api', 'record %d differs from the event the library API yields for the same seed and settings\n cli: %s\n api: %s\n cmd: %s' % (i, recs[i][1][:300], ref[i][1][:300], ' '.join(argv)))
    if '@status=0' not in info:
        raise Violation('no-status', 'run completed but the companion file lacks @status=0: ' + ' '.join(argv))
    # effective settings
    kv = dict(l.split('=', 1) for l in info.strip().split('\n') if '=' in l)
    exp = {'decay-category': c['category'], 'nuclide': c['nuclide'], 'seed': str(c['seed']), 'nb-events': str(n)}
    if c['category'] == 'dbd':
        exp['dbd-daughter-level'] = str(c['level'] if c['level'] is not None else 0)
        exp['dbd-mode'] = str(c['mode'])
    for k, v in exp.items():
        if kv.get(k) != v:
            raise Violation('settings', 'companion file reports %s=%s, effective setting is %s: %s' % (k, kv.get(k), v, ' '.join(argv)))
    if c['activity'] is not None and abs(float(kv.get('activity-Bq', 'nan')) - c['activity']) > 2e-5 * c['activity']:
        raise Violation('settings', 'companion file activity-Bq=%s vs %r' % (kv.get('activity-Bq'), c['activity']))
    def near(key, want):
        try:
            return abs(float(kv.get(key, 'nan')) - want) <= 2e-5 * abs(want) + 1e-12
        except ValueError:
            return False
    if c['emin'] is not None and not near('erange-min-energy-MeV', c['emin']):
        raise Violation('settings', 'companion file erange-min-energy-MeV=%s, requested %r: %s' % (kv.get('erange-min-energy-MeV'), c['emin'], ' '.join(argv)))
    if c['emax'] is not None and not near('erange-max-energy-MeV', c['emax']):
        raise Violation('settings', 'companion file erange-max-energy-MeV=%s, requested %r: %s' % (kv.get('erange-max-energy-MeV'), c['emax'], ' '.join(argv)))
    if c['mdl'] is not None:
        m = c['mdl']
        for key, want in (('mdl.cone_phi_degree', m['phi']), ('mdl.cone_theta_degree', m['theta']), ('mdl.cone_aperture_degree', m['aperture'])):
            if not near(key, want):
                raise Violation('settings', 'companion file %s=%s, requested %r: %s' % (key, kv.get(key), want, ' '.join(argv)))
        if kv.get('mdl.target_particle_rank') != str(m['rank']):
            raise Violation('settings', 'companion file mdl.target_particle_rank=%s, requested %r: %s' % (kv.get('mdl.target_particle_rank'), m['rank'], ' '.join(argv)))
        if m.get('particle') is not None and kv.get('mdl.particle_label') != m['particle']:
            raise Violation('settings', 'companion file mdl.particle_label=%s, requested %r: %s' % (kv.get('mdl.particle_label'), m['particle'], ' '.join(argv)))
    if c['emin'] is not None or c['emax'] is not None:
        if 'erange-toallevents' not in kv or abs(float(kv['erange-toallevents']) - float(toall)) > 1e-9 * float(toall):
            raise Violation('settings', 'companion file erange-toallevents=%s vs API %s' % (kv.get('erange-toallevents'), toall))
    # ---- second run: byte-identical event file
    a2, _, _ = build_argv(c, base + '-2')
    rc2, _ = run_cli(a2)
    if rc2 != 0 or open(base + '.d0t', 'rb').read() != open(base + '-2.d0t', 'rb').read():
        raise Violation('not-reproducible', 'two runs with the same arguments give different event files: ' + ' '.join(argv))
    STATS['nontrivial'].add('A|' + norm)
    if len(STATS['samples']) < 5 and (STATS['lines'] % 7 == 0):
        STATS['samples'].append({'argv': argv[:-1] + ['<basename>'], 'verdict': 'accepted', 'records': n, 'first_record': recs[0][1][:200]})
    # ---- kill points: before every write of the run
    if do_kill:
        cf = base + '.cnt'
        run_cli(argv, {'LD_PRELOAD': SHIM, 'VERIF_KILL_COUNT': cf})
        total = int(open(cf).read().strip()) if os.path.exists(cf) else 0
        complete = open(base + '.d0t', 'rb').read()
        STATS['kill_cases'] += 1
        complete_c = open(base + '.d0c').read()
        for k in range(1, total + 1):
            for ext in ('.d0t', '.d0c'):
                if os.path.exists(base + ext):
                    os.remove(base + ext)
            if k % 2:
                # the basename holds the complete output of an earlier identical run (marker included): whatever the kill point, a marker next
                # to an event file that is no longer complete is a lie
                open(base + '.d0t', 'wb').write(complete)
                open(base + '.d0c', 'w').write(complete_c)
            rck, _ = run_cli(argv, {'LD_PRELOAD': SHIM, 'VERIF_KILL_AT': str(k)})
            STATS['kill_points'] += 1
            inf = open(base + '.d0c').read() if os.path.exists(base + '.d0c') else ''
            evt = open(base + '.d0t', 'rb').read() if os.path.exists(base + '.d0t') else b''
            if '@status=0' in inf and evt != complete:
                raise Violation('status-before-complete', 'killed before write #%d of %d: companion file carries @status=0 but the event file is incomplete (%d of %d bytes): %s' % (k, total, len(evt), len(complete), ' '.join(argv)))
            STATS['nontrivial'].add('K|%s|%d' % (norm, k))


# ---------------------------------------------------------------- strategies
VALID_DBD = [('Mo100', 0, 1, None), ('Mo100', 0, 4, None), ('Mo100', 0, 4, (0.5, 1.5)), ('Mo100', 1, 8, None), ('Se82', 0, 4, (0.5, 1.5)), ('Se82', 0, 5, None), ('Nd150', 0, 20, None),
             ('Cd106', 0, 9, None), ('Ru96', 0, 12, None), ('Zr96', 0, 1, None), ('Xe136', 1, 16, (0.2, 1.0)), ('Ca48', 1, 3, None), ('Te130', 0, 2, None), ('Ge76', 3, 7, None), ('Cd116', 0, 13, (0.3, None)),
             ('Nd150', 3, 3, None), ('Sn112', 0, 10, (0.1, 0.5)), ('Rn222', 0, 1, None), ('Se82', 0, 19, (None, 1.2)), ('Mo100', 0, 18, None), ('Ce136', 0, 11, None)]
MUTATIONS = ['bad-category', 'no-category', 'unpublished', 'prefix-extended', 'cross-category', 'no-nuclide', 'bad-seed', 'bad-count', 'bad-level', 'huge-level', 'bad-mode', 'no-mode', 'gA-mode', 'wrong-spin-mode',
             'inverted-window', 'window-noncapable', 'window-beyond', 'zero-activity', 'negative-activity', 'bad-mdl', 'no-basename', 'unknown-option', 'missing-value', 'stray-parameter', 'bad-logging', 'negative-window']


def apply_mutation(c, cat, m, pick):
    """one mutation of a command-line model; pick(list) chooses among the variants (a Hypothesis draw, or an enumeration index)"""
    if m == 'bad-category': c['category'] = 'xyz'
    elif m == 'no-category': c['category'] = None
    elif m == 'unpublished': c['nuclide'], c['nuclide_class'] = pick((['Xx99', 'Po214', 'Ta180m', 'U235', 'mo100', 'Bi214' if cat == 'background' else 'Mo101'])), 'unpublished'
    elif m == 'prefix-extended': c['nuclide'], c['nuclide_class'] = str(c['nuclide']) + pick((['m', '0', '+X'])), 'prefix-extended'
    elif m == 'cross-category': c['nuclide'], c['nuclide_class'] = pick(([n for n in (DBD if cat == 'background' else BKG) if n not in (BKG if cat == 'background' else DBD)])), 'cross-category'
    elif m == 'no-nuclide': c['nuclide'], c['nuclide_class'] = None, 'missing'
    elif m == 'bad-seed': c['seed'] = pick(([-5, -1]))
    elif m == 'bad-count': c['count'] = pick(([0, -3, -1, -18446744073709551613]))
    elif cat == 'dbd' and m == 'bad-level': c['level'] = -1
    elif cat == 'dbd' and m == 'huge-level': c['level'] = pick(([9, 17, 99]))
    elif cat == 'dbd' and m == 'bad-mode': c['mode'] = pick(([0, 25, 26, -1]))
    elif cat == 'dbd' and m == 'no-mode': c['mode'] = None
    elif cat == 'dbd' and m == 'gA-mode': c['mode'] = pick(([21, 22, 23, 24]))
    elif cat == 'dbd' and m == 'wrong-spin-mode': c['mode'] = pick(([7, 8, 16, 1, 4]))
    elif cat == 'dbd' and m == 'inverted-window': c['emin'], c['emax'], c['window_class'] = 1.5, 0.5, 'inverted'
    elif cat == 'dbd' and m == 'window-noncapable': c['emin'], c['emax'], c['window_class'] = 0.5, 1.5, 'valid'
    elif cat == 'dbd' and m == 'window-beyond': c['emin'], c['emax'], c['window_class'] = 50.0, 60.0, 'beyond'
    elif m == 'zero-activity': c['activity'] = 0.0
    elif m == 'negative-activity': c['activity'] = -1.0
    elif m == 'bad-mdl': c['mdl'] = {'particle': pick((['muon', None, 'e-'])), 'rank': pick(([-2, 0])), 'phi': 0.0, 'theta': 90.0, 'aperture': pick(([400.0, -1.0, 5.0]))}
    elif m == 'no-basename': c['basename_style'] = 'none'
    elif m == 'bad-logging': c['logging'] = pick((['loud', 'MUTE', '2']))
    elif cat == 'dbd' and m == 'negative-window': c['emin'], c['emax'], c['window_class'] = pick(([(-0.5, 1.5), (0.5, -1.5), (-0.25, None)])) + ('negative',)
    elif m in ('unknown-option', 'missing-value', 'stray-parameter'):
        c['extra'] = m
        c['missing_opt'] = pick((['-s', '-n', '-N', '-c', '-m', '-l', '-e', '-E', '-a', '-b', '-g', '--pgop-mdl-rank', '--pgop-mdl-particle', '--pgop-mdl-cone-aperture']))


@st.composite
def lines(draw):
    """a valid command line with 0..2 mutations (so that both verdicts and every refusal reason are well represented)"""
    c = {'extra': None, 'missing_opt': '-s', 'mdl': None, 'activity': None, 'emin': None, 'emax': None, 'level': None, 'mode': None, 'window_class': 'none'}
    cat = draw(st.sampled_from(['background', 'dbd']))
    c['category'] = cat
    c['nuclide_class'] = 'published'
    if cat == 'background':
        c['nuclide'] = draw(st.sampled_from(BKG))
    else:
        iso, lev, mode, win = draw(st.sampled_from(VALID_DBD))
        c['nuclide'], c['level'], c['mode'] = iso, lev, mode
        if lev == 0 and draw(st.booleans()):
            c['level'] = None  # default level
        if win is not None:
            if mode != 10 and draw(st.booleans()):   # generated bounds (2 decimals) instead of the fixed ones; the verdict and the events come from the API oracle
                lo = draw(st.integers(5, 120)) / 100.0
                win = (lo if win[0] is not None else None, round(lo + draw(st.integers(20, 150)) / 100.0, 2) if win[1] is not None else None)
            c['emin'], c['emax'] = win
            c['window_class'] = 'valid' if (win[0] is not None and win[1] is not None) else ('emin-only' if win[1] is None else 'emax-only')
    c['nuclide_flag'] = draw(st.sampled_from(['-N', '--nuclide']))
    c['seed'] = draw(st.sampled_from([0, 1, 314159, 2147483647]) | st.integers(0, 2 ** 31 - 1))
    c['count'] = draw(st.integers(1, 60))
    if draw(st.integers(0, 3)) == 0:
        # real-valued settings are drawn from decimals of at most 5 significant digits (the companion file prints 6)
        c['activity'] = draw(st.sampled_from([1.0, 1e3, 2.5e-3, 37000.0]) | st.builds(lambda m, e: float('%de%d' % (m, e)), st.integers(1, 99999), st.integers(-7, 1)))
    if draw(st.integers(0, 1)) == 0:
        dec = lambda lo, hi: st.builds(lambda k, d: round(k / 10.0 ** d, d), st.integers(lo * 100, hi * 100), st.sampled_from([0, 1, 1, 2, 2]))
        c['mdl'] = {'particle': draw(st.sampled_from(['e-', 'gamma', 'all', '*', 'alpha', 'e+', 'g', 'electron', 'positron', 'a'])), 'rank': draw(st.sampled_from([-1, 0, 1, 3]) | st.integers(-1, 5)),
                    'phi': draw(st.sampled_from([0.0, 45.0, 270.0]) | dec(-360, 720)),
                    'theta': draw(st.sampled_from([0.0, 90.0, 30.0, 180.0]) | dec(0, 180)), 'aperture': draw(st.sampled_from([0.0, 5.0, 60.0, 179.0]) | dec(0, 179))}
    c['basename_style'] = draw(st.sampled_from(['flag', 'positional']))
    c['longmask'] = draw(st.sampled_from([0, 0, 1023]) | st.integers(0, 1023))
    c['logging'] = draw(st.sampled_from([None, None, None, 'mute', 'verbose', 'debug']))
    if draw(st.integers(0, 24)) == 0:
        c['count'] = draw(st.integers(1000, 1100))   # the driver prints its progress every 1000 events
    nmut = draw(st.sampled_from([0, 0, 0, 0, 0, 1, 1, 1, 2]))
    muts = [draw(st.sampled_from(MUTATIONS)) for _ in range(nmut)]
    for m in muts:
        apply_mutation(c, cat, m, lambda l: draw(st.sampled_from(list(l))))
    if c['category'] != 'dbd':
        c['window_class'] = 'none'
        c['emin'], c['emax'] = None, None
    return c



def systematic_lines():
    """every mutation kind x every variant on three fixed valid lines: each refusal reason is exercised in every run, whatever the seed"""
    bases = [dict(category='background', nuclide='Co60', level=None, mode=None, emin=None, emax=None, window_class='none'),
             dict(category='dbd', nuclide='Mo100', level=0, mode=4, emin=0.5, emax=1.5, window_class='valid'),
             dict(category='dbd', nuclide='Mo100', level=0, mode=1, emin=None, emax=None, window_class='none')]
    out = []
    for b in bases:
        for m in MUTATIONS:
            for idx in range(14):
                used = []

                def pick(l, idx=idx, used=used):
                    l = list(l)
                    used.append(len(l))
                    return l[idx % len(l)]
                c = {'extra': None, 'missing_opt': '-s', 'mdl': None, 'activity': None, 'nuclide_class': 'published', 'nuclide_flag': '-N', 'seed': 12345, 'count': 3, 'basename_style': 'flag'}
                c.update(b)
                before = json.dumps(c, sort_keys=True, default=str)
                apply_mutation(c, b['category'], m, pick)
                if c['category'] != 'dbd':
                    c['window_class'] = 'none'
                    c['emin'], c['emax'] = None, None
                if json.dumps(c, sort_keys=True, default=str) == before:
                    break      # mutation does not apply to this base
                out.append(c)
                if idx + 1 >= max(used or [1]):
                    break
    # ... and valid lines that carry EVERY real-valued setting with a decimal value (angles, activity, window bounds), every MDL species spelling and
    # rank, once with short and once with long option names: a setting that is parsed, converted or reported wrongly shows whatever the seed
    k = 0
    for spelling in ('e-', 'gamma', 'all', '*', 'alpha', 'e+', 'g', 'electron', 'positron', 'a'):
        for cat, nuc, lev, mode, win in (('background', 'Bi214+Po214', None, None, None), ('dbd', 'Mo100', 0, 4, (0.55, 1.45)), ('dbd', 'Cd106', 0, 9, None)):
            k += 1
            c = {'extra': None, 'missing_opt': '-s', 'nuclide_class': 'published', 'nuclide_flag': '-N' if k % 2 else '--nuclide', 'seed': 1000 + k, 'count': 4 + k % 5, 'basename_style': 'flag' if k % 3 else 'positional',
                 'category': cat, 'nuclide': nuc, 'level': lev, 'mode': mode, 'emin': win[0] if win else None, 'emax': win[1] if win else None, 'window_class': 'valid' if win else 'none',
                 'activity': [None, 2.5e-3, 37000.5][k % 3], 'longmask': 1023 if k % 2 else 0, 'logging': [None, 'mute', 'verbose', 'debug'][k % 4],
                 'mdl': {'particle': spelling, 'rank': [-1, 0, 1, 2][k % 4], 'phi': [12.5, -112.25, 0.75, 359.5][k % 4], 'theta': [40.25, 90.5, 179.75, 0.5][(k // 2) % 4], 'aperture': [10.75, 0.5, 89.25, 120.5][(k // 3) % 4]}}
            out.append(c)
    return out


max_ex = int(os.environ.get('VERIF_C13_LINES', 5000 if TIER == 'thorough' else 260))
KILL_EVERY = 15 if TIER == 'thorough' else 20


@seed(SEED)
@settings(max_examples=max_ex, database=None, deadline=None, report_multiple_bugs=False, derandomize=False, suppress_health_check=list(HealthCheck), phases=[Phase.generate, Phase.shrink])
@given(lines())
def prop(c):
    try:
        check_line(c, do_kill=(STATS['accepted'] % KILL_EVERY == 3 and c.get('count', 0) <= 100))   # (every write of a 1000-event run would cost minutes)
    except Violation as v:
        if v.cls == 'harness':
            raise
        STATS['failure'] = (c, v.cls, str(v))
        raise AssertionError(str(v))


def main():
    if '--replay' in sys.argv:
        j = json.load(open(sys.argv[sys.argv.index('--replay') + 1]))
        try:
            check_line(j['line'], do_kill=j.get('kill', False))
        except Violation as v:
            print('REPLAY-FAIL class=%s %s' % (v.cls, v))
            return 1
        print('REPLAY-PASS')
        return 0
    t0 = time.time()
    failures = []
    try:
        for c in systematic_lines():
            lab('systematic-line')
            try:
                check_line(c)
            except Violation as v:
                if v.cls == 'harness':
                    raise
                STATS['failure'] = (c, v.cls, str(v))
                raise AssertionError(str(v))
        prop()
    except AssertionError:
        pass
    except Violation as v:
        print('HARNESS-ERROR', v)
        return 2
    except Exception as e:
        if STATS['failure'] is None:
            print('HARNESS-ERROR', repr(e))
            return 2
    if STATS['failure'] is not None:
        c, cls, msg = STATS['failure']
        sig = 'C13|' + cls
        os.makedirs(os.path.join(ROOT, 'replay'), exist_ok=True)
        path = os.path.join(ROOT, 'replay', 'C13-%s.json' % hashlib.sha1((sig + json.dumps(c, sort_keys=True)).encode()).hexdigest()[:12])
        json.dump({'property': 'C13', 'line': c, 'kill': cls == 'status-before-complete', 'sig': sig, 'msg': msg}, open(path, 'w'), indent=1)
        failures.append({'sig': sig, 'msg': msg[:1200], 'replay': path})
    rep = {'property': 'C13', 'evaluations': STATS['lines'] + STATS['kill_points'], 'labels': STATS['labels'],
           'counters': {'command_lines': STATS['lines'], 'accepted': STATS['accepted'], 'refused': STATS['refused'], 'kill_point_cases': STATS['kill_cases'], 'kill_points_enumerated': STATS['kill_points']},
           'known': {}, 'nontrivial': sorted(STATS['nontrivial']), 'samples': STATS['samples'], 'failures': failures}
    json.dump(rep, open(OUT, 'w'))
    for x in sorted(STATS.get('slow', []), reverse=True)[:8]:
        print('slow line: %.1fs kill=%s %s' % (x[0], x[2], x[1]), file=sys.stderr)
    print('done lines=%d accepted=%d refused=%d kill_points=%d failures=%d %.1fs' % (STATS['lines'], STATS['accepted'], STATS['refused'], STATS['kill_points'], len(failures), time.time() - t0))
    return 0


if __name__ == '__main__':
    sys.exit(main())
