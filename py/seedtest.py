#!/usr/bin/env python3
"""seedtest.py <seed-id> [check ids...] [--tier quick|thorough]
Applies /verif/seeded/<seed-id>/patch.diff to /repo's working tree, runs the given checks (default: the property the seed
breaks, from meta.json), reverts the patch (git apply -R) and prints which checks reported a violation."""
import sys, os, json, subprocess, time
ROOT = os.path.dirname(os.path.dirname(os.path.abspath(__file__)))
sid = sys.argv[1]
tier = 'quick'
args = sys.argv[2:]
if '--tier' in args:
    tier = args[args.index('--tier') + 1]
    args = [a for a in args if a not in ('--tier', tier)]
d = os.path.join(ROOT, 'seeded', sid)
meta = json.load(open(os.path.join(d, 'meta.json')))
checks = args or meta.get('checks') or [meta['property']]
patch = os.path.join(d, 'patch.diff')
assert subprocess.run(['git', '-C', '/repo', 'status', '--porcelain', '--untracked-files=no'], stdout=subprocess.PIPE, text=True).stdout.strip() == '', '/repo has uncommitted changes'
subprocess.run(['git', '-C', '/repo', 'apply', patch], check=True)
res = {}
try:
    for c in checks:
        t = time.time()
        r = subprocess.run([os.path.join(ROOT, 'check'), c, tier], stdout=subprocess.PIPE, stderr=subprocess.STDOUT, text=True)
        viol = [l for l in r.stdout.split('\n') if l.startswith('VIOLATION') or l.startswith('  #')]
        res[c] = {'rc': r.returncode, 'violations': viol[:6], 'wall': round(time.time() - t, 1)}
        print('%s %s -> rc=%d %s (%.0fs)' % (c, tier, r.returncode, 'CAUGHT' if r.returncode == 1 else ('BROKEN' if r.returncode == 2 else 'missed'), time.time() - t))
        for v in viol[:4]:
            print('   ', v[:260])
finally:
    subprocess.run(['git', '-C', '/repo', 'apply', '-R', patch], check=True)
    assert subprocess.run(['git', '-C', '/repo', 'status', '--porcelain', '--untracked-files=no'], stdout=subprocess.PIPE, text=True).stdout.strip() == ''
# the evidence files and replay files written while the seeded change was applied describe a broken tree: put the committed evidence back
subprocess.run(['git', '-C', ROOT, 'checkout', '--', 'evidence'], stdout=subprocess.DEVNULL, stderr=subprocess.DEVNULL)
json.dump(res, open(os.path.join(d, 'last_run_%s.json' % tier), 'w'), indent=1)
for c, v in res.items():
    meta.setdefault('caught_by', {})['%s %s' % (c, tier)] = {'verdict': 'CAUGHT' if v['rc'] == 1 else ('BROKEN' if v['rc'] == 2 else 'missed'), 'wall_s': v['wall'],
                                                          'first_violation': (v['violations'][1].strip() if len(v['violations']) > 1 else '')[:240]}
meta['what_was_run'] = 'python3 py/seedtest.py %s  (git -C /repo apply patch.diff; ./check <ID> <tier>; git -C /repo apply -R patch.diff)' % sid
json.dump(meta, open(os.path.join(d, 'meta.json'), 'w'), indent=1)
