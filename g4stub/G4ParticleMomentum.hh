#include "g4stub_core.hh"
