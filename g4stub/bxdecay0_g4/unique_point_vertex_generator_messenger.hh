#ifndef G4STUB_UPVG_MESSENGER_HH
#define G4STUB_UPVG_MESSENGER_HH
#include "g4stub_core.hh"
namespace bxdecay0_g4 { class UniquePointVertexGenerator; class UniquePointVertexGeneratorMessenger : public G4UImessenger { public: explicit UniquePointVertexGeneratorMessenger(UniquePointVertexGenerator *) {} }; }
#endif
