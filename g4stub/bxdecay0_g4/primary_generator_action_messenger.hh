// stand-in (shadows the real messenger header: the UI command layer is not part of property C17)
#ifndef G4STUB_PGA_MESSENGER_HH
#define G4STUB_PGA_MESSENGER_HH
#include "g4stub_core.hh"
namespace bxdecay0_g4 { class PrimaryGeneratorAction; class PrimaryGeneratorActionMessenger : public G4UImessenger { public: explicit PrimaryGeneratorActionMessenger(PrimaryGeneratorAction *) {} }; }
#endif
