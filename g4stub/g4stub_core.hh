// g4stub_core.hh -- minimal stand-in for the few Geant4 / CLHEP classes the bxdecay0_g4 extension touches.
// Part of the trusted base of check C17 (Geant4 is not available offline).  It models only behaviour the extension
// observably relies on: unit constants with Geant4's numerical values, a 3-vector, particle definitions as
// singletons, G4ParticleGun's protected data members + the setters used + GeneratePrimaryVertex appending one primary
// per call to the event, G4RunManager::AbortRun as a recordable flag, G4Exception as a recordable call.
#ifndef G4STUB_CORE_HH
#define G4STUB_CORE_HH
#include <cmath>
#include <string>
#include <vector>
typedef int G4int; typedef double G4double; typedef bool G4bool; typedef std::string G4String;
namespace CLHEP {
  // Geant4 system of units: MeV = 1, ns = 1, mm = 1
  static const double MeV = 1.0, keV = 1.e-3, GeV = 1.e3, nanosecond = 1.0, second = 1.e9, ns = 1.0, s = 1.e9, mm = 1.0, cm = 10.0, m = 1000.0, degree = M_PI / 180.0, deg = M_PI / 180.0, radian = 1.0, rad = 1.0;
  struct Hep3Vector {
    double dx = 0, dy = 0, dz = 0;
    Hep3Vector() = default; Hep3Vector(double x, double y, double z) : dx(x), dy(y), dz(z) {}
    double x() const { return dx; } double y() const { return dy; } double z() const { return dz; }
    void set(double x, double y, double z) { dx = x; dy = y; dz = z; }
    double mag() const { return std::sqrt(dx * dx + dy * dy + dz * dz); }
    Hep3Vector unit() const { double m = mag(); return m > 0 ? Hep3Vector(dx / m, dy / m, dz / m) : Hep3Vector(); }
  };
}
using CLHEP::MeV; using CLHEP::keV; using CLHEP::second; using CLHEP::mm; using CLHEP::cm; using CLHEP::degree;
typedef CLHEP::Hep3Vector G4ThreeVector; typedef G4ThreeVector G4ParticleMomentum;

struct G4ParticleDefinition { std::string name; double mass; double charge; const std::string & GetParticleName() const { return name; } double GetPDGMass() const { return mass; } double GetPDGCharge() const { return charge; } };
#define G4STUB_PARTICLE(Cls, nm, m, q, Fn) struct Cls { static G4ParticleDefinition * Definition() { static G4ParticleDefinition d{nm, m, q}; return &d; } static G4ParticleDefinition * Fn() { return Definition(); } };
G4STUB_PARTICLE(G4Gamma, "gamma", 0.0, 0.0, GammaDefinition)
G4STUB_PARTICLE(G4Electron, "e-", 0.51099891, -1.0, ElectronDefinition)
G4STUB_PARTICLE(G4Positron, "e+", 0.51099891, +1.0, PositronDefinition)
G4STUB_PARTICLE(G4Alpha, "alpha", 3727.379, +2.0, AlphaDefinition)

struct G4StubPrimary { const G4ParticleDefinition * def; G4ThreeVector momentum; double time; G4ThreeVector position; G4ThreeVector polarization; };
struct G4Event { std::vector<G4StubPrimary> primaries; };

class G4ParticleGun
{
public:
  G4ParticleGun() = default;
  explicit G4ParticleGun(G4int n) : NumberOfParticlesToBeGenerated(n) {}
  G4ParticleGun(G4ParticleDefinition * d, G4int n = 1) : NumberOfParticlesToBeGenerated(n), particle_definition(d) {}
  virtual ~G4ParticleGun() = default;
  void SetParticleDefinition(G4ParticleDefinition * d) { particle_definition = d; }
  void SetParticleTime(G4double t) { particle_time = t; }
  // what an application (or the /gun/ commands every G4ParticleGun registers) may set between two events
  void SetNumberOfParticles(G4int n) { NumberOfParticlesToBeGenerated = n; }
  void SetParticlePolarization(G4ThreeVector p) { particle_polarization = p; }
  void SetParticleEnergy(G4double e) { particle_energy = e; }
  void SetParticleCharge(G4double c) { particle_charge = c; }
  void SetParticlePosition(G4ThreeVector p) { particle_position = p; }
  // Geant4: direction = p.unit(), |p| stored, kinetic energy derived from the mass of the current definition
  void SetParticleMomentum(G4ParticleMomentum p)
  {
    particle_momentum_direction = p.unit(); particle_momentum = p.mag();
    double m = particle_definition ? particle_definition->mass : 0.0; particle_energy = std::sqrt(particle_momentum * particle_momentum + m * m) - m;
    full_momentum = p;
  }
  void GeneratePrimaryVertex(G4Event * ev)
  {
    if (!particle_definition) return; // Geant4 throws a G4Exception and generates nothing
    for (int i = 0; i < NumberOfParticlesToBeGenerated; i++) ev->primaries.push_back({particle_definition, full_momentum, particle_time, particle_position, particle_polarization});
  }
protected:
  G4int NumberOfParticlesToBeGenerated = 1;
  G4ParticleDefinition * particle_definition = nullptr;
  G4ParticleMomentum particle_momentum_direction;
  G4double particle_energy = 0, particle_momentum = 0;
  G4ThreeVector particle_position;
  G4double particle_time = 0;
  G4ThreeVector particle_polarization;
  G4double particle_charge = 0;
  G4ThreeVector full_momentum;
};

class G4VUserPrimaryGeneratorAction { public: G4VUserPrimaryGeneratorAction() = default; virtual ~G4VUserPrimaryGeneratorAction() = default; virtual void GeneratePrimaries(G4Event *) = 0; };

class G4RunManager
{
public:
  static G4RunManager * GetRunManager() { static G4RunManager r; return &r; }
  void AbortRun(bool = false) { abort_count++; }
  int abort_count = 0;
};
enum G4ExceptionSeverity { FatalException, FatalErrorInArgument, RunMustBeAborted, EventMustBeAborted, JustWarning };
struct G4StubExceptions { static int & count() { static int c = 0; return c; } };
inline void G4Exception(const char *, const char *, G4ExceptionSeverity, const char *) { G4StubExceptions::count()++; }
class G4UImessenger { public: virtual ~G4UImessenger() = default; };
#endif
