// vf.hpp -- small property-based-testing engine for bxdecay0 ("engine A", DESIGN.md 2.2)
//
// A case is (configuration, deviate tape).  The tape is a lazily extended
// vector of doubles; position i is a pure function of (tape seed, i, steering
// profile, threshold dictionary), unless an explicit value was recorded
// (replay / shrinking).  All randomness of a case is derived from
// (VERIF_SEED, case index) through splitmix64 -- no wall clock, no rand().
#ifndef VF_HPP
#define VF_HPP
#include <algorithm>
#include <cmath>
#include <cstdint>
#include <cstdio>
#include <cstdlib>
#include <cstring>
#include <fstream>
#include <functional>
#include <map>
#include <set>
#include <sstream>
#include <stdexcept>
#include <string>
#include <vector>
#include <fnmatch.h>

#include <bxdecay0/i_random.h>

namespace vf {

inline uint64_t splitmix64(uint64_t x)
{
  x += 0x9E3779B97F4A7C15ULL;
  x = (x ^ (x >> 30)) * 0xBF58476D1CE4E5B9ULL;
  x = (x ^ (x >> 27)) * 0x94D049BB133111EBULL;
  return x ^ (x >> 31);
}
inline uint64_t mix(uint64_t a, uint64_t b) { return splitmix64(a ^ splitmix64(b + 0x632BE59BD9B4E019ULL)); }
inline double u01(uint64_t h) { return (double)(h >> 11) * (1.0 / 9007199254740992.0); }

// Sequential generator for case construction (configuration choices)
struct Rng
{
  uint64_t s;
  explicit Rng(uint64_t seed) : s(splitmix64(seed)) {}
  uint64_t next() { s += 0x9E3779B97F4A7C15ULL; return splitmix64(s); }
  double unit() { return u01(next()); }
  int range(int lo, int hi) { return lo + (int)(next() % (uint64_t)(hi - lo + 1)); } // inclusive
  bool chance(double p) { return unit() < p; }
  double uniform(double a, double b) { return a + (b - a) * unit(); }
  template <class T> const T & pick(const std::vector<T> & v) { return v[next() % v.size()]; }
};

static const double DEV_LO = 1e-12;
static const double DEV_HI = 1.0 - 1e-12;
inline double clampdev(double x) { return x < DEV_LO ? DEV_LO : (x > DEV_HI ? DEV_HI : x); }

struct TapeOverrun : std::runtime_error
{
  TapeOverrun() : std::runtime_error("tape overrun: deviate budget exhausted") {}
};

// Steering profile of a tape
struct Profile
{
  double p_plain = 1.0;  // probability mass of a plain uniform draw (>= 0.5 always)
  double w_low = 0, w_high = 0, w_dict = 0; // relative weights of the remainder
};

struct Tape
{
  std::vector<double> v;    // materialised values
  uint64_t seed = 0;
  Profile prof;
  const std::vector<double> * dict = nullptr; // sorted thresholds in (0,1)

  double gen(size_t i) const
  {
    uint64_t h0 = mix(seed, 3 * i), h1 = mix(seed, 3 * i + 1), h2 = mix(seed, 3 * i + 2);
    double sel = u01(h0);
    if (sel < prof.p_plain) return clampdev(u01(h1));
    double wsum = prof.w_low + prof.w_high + prof.w_dict;
    if (wsum <= 0) return clampdev(u01(h1));
    double r = (sel - prof.p_plain) / (1 - prof.p_plain) * wsum;
    if (r < prof.w_low) return clampdev(std::pow(10.0, -12.0 * u01(h1)));
    r -= prof.w_low;
    if (r < prof.w_high) return clampdev(1.0 - std::pow(10.0, -12.0 * u01(h1)));
    if (!dict || dict->empty()) return clampdev(u01(h1));
    const std::vector<double> & d = *dict;
    size_t k = (size_t)(h1 % d.size());
    int variant = (int)(h2 % 4);
    double t = d[k];
    double lo = k > 0 ? d[k - 1] : 0.0, hi = k + 1 < d.size() ? d[k + 1] : 1.0;
    double j = std::pow(10.0, -3.0 - 9.0 * u01(splitmix64(h2)));
    switch (variant) {
    case 0: return clampdev(0.5 * (lo + t));
    case 1: return clampdev(0.5 * (t + hi));
    case 2: return clampdev(t * (1 - j));
    default: return clampdev(t * (1 + j));
    }
  }
  double at(size_t i)
  {
    while (v.size() <= i) v.push_back(gen(v.size()));
    return v[i];
  }
};

struct TapeRandom : public bxdecay0::i_random
{
  Tape * tape;
  size_t pos = 0;
  size_t limit;
  double scale_eps = 0; // knife-edge perturbation amplitude (0 = none)
  uint64_t pert_seed = 0;
  explicit TapeRandom(Tape & t, size_t start = 0, size_t lim = 20000) : tape(&t), pos(start), limit(lim) {}
  double operator()() override
  {
    if (pos >= limit) throw TapeOverrun();
    double x = tape->at(pos);
    if (scale_eps > 0) {
      double d = (2 * u01(mix(pert_seed, pos)) - 1) * scale_eps;
      x = clampdev(x * (1 + d));
    }
    pos++;
    return x;
  }
};

// ---------------------------------------------------------------- JSON (write only)
inline std::string jstr(const std::string & s)
{
  std::string o = "\"";
  for (unsigned char c : s) {
    if (c == '"' || c == '\\') { o += '\\'; o += (char)c; }
    else if (c == '\n') o += "\\n";
    else if (c == '\t') o += "\\t";
    else if (c < 0x20 || c >= 0x7f) { char b[8]; snprintf(b, sizeof b, "\\u%04x", c); o += b; }
    else o += (char)c;
  }
  return o + "\"";
}
inline std::string jnum(double x)
{
  if (!(x == x) || std::isinf(x)) return jstr(x != x ? "nan" : (x > 0 ? "inf" : "-inf"));
  char b[40]; snprintf(b, sizeof b, "%.17g", x); return b;
}
inline std::string hexd(double x) { char b[40]; snprintf(b, sizeof b, "%a", x); return b; }
inline std::string jtape(const std::vector<double> & v, size_t n)
{
  std::string o = "[";
  for (size_t i = 0; i < n && i < v.size(); i++) { if (i) o += ","; o += jstr(hexd(v[i])); }
  return o + "]";
}

// Minimal JSON reader for replay files (objects, arrays, strings, numbers, bools)
struct JV
{
  enum T { NUL, NUM, STR, ARR, OBJ, BOOL } t = NUL;
  double num = 0; bool b = false; std::string str;
  std::vector<JV> arr; std::vector<std::pair<std::string, JV>> obj;
  const JV * get(const std::string & k) const { for (auto & p : obj) if (p.first == k) return &p.second; return nullptr; }
  const JV & at(const std::string & k) const { const JV * p = get(k); if (!p) throw std::runtime_error("json: missing key " + k); return *p; }
  bool has(const std::string & k) const { return get(k) != nullptr; }
  double n(const std::string & k, double def) const { const JV * p = get(k); return p && p->t == NUM ? p->num : def; }
  std::string s(const std::string & k, const std::string & def = "") const { const JV * p = get(k); return p && p->t == STR ? p->str : def; }
};
struct JParser
{
  const std::string & s; size_t i = 0;
  explicit JParser(const std::string & str) : s(str) {}
  void ws() { while (i < s.size() && isspace((unsigned char)s[i])) i++; }
  JV parse()
  {
    ws(); JV v;
    if (i >= s.size()) throw std::runtime_error("json: eof");
    char c = s[i];
    if (c == '{') {
      v.t = JV::OBJ; i++; ws();
      if (s[i] == '}') { i++; return v; }
      while (true) {
        ws(); JV k = parse(); ws();
        if (s[i] != ':') throw std::runtime_error("json: ':' expected"); i++;
        JV val = parse(); v.obj.push_back({k.str, val}); ws();
        if (s[i] == ',') { i++; continue; }
        if (s[i] == '}') { i++; break; }
        throw std::runtime_error("json: ',' or '}' expected");
      }
    } else if (c == '[') {
      v.t = JV::ARR; i++; ws();
      if (s[i] == ']') { i++; return v; }
      while (true) {
        v.arr.push_back(parse()); ws();
        if (s[i] == ',') { i++; continue; }
        if (s[i] == ']') { i++; break; }
        throw std::runtime_error("json: ',' or ']' expected");
      }
    } else if (c == '"') {
      v.t = JV::STR; i++;
      while (i < s.size() && s[i] != '"') {
        if (s[i] == '\\') {
          i++;
          char e = s[i];
          if (e == 'n') v.str += '\n'; else if (e == 't') v.str += '\t';
          else if (e == 'u') { v.str += (char)strtol(s.substr(i + 1, 4).c_str(), nullptr, 16); i += 4; }
          else v.str += e;
          i++;
        } else v.str += s[i++];
      }
      i++;
    } else if (c == 't' || c == 'f') {
      v.t = JV::BOOL; v.b = (c == 't'); i += v.b ? 4 : 5;
    } else if (c == 'n') { i += 4; }
    else {
      v.t = JV::NUM; char * e; v.num = strtod(s.c_str() + i, &e); i = e - s.c_str();
    }
    return v;
  }
};
inline JV jload(const std::string & path)
{
  std::ifstream f(path); if (!f) throw std::runtime_error("cannot open " + path);
  std::stringstream ss; ss << f.rdbuf(); std::string s = ss.str(); JParser p(s); return p.parse();
}
inline std::vector<double> jtape_read(const JV & a)
{
  std::vector<double> v;
  for (auto & e : a.arr) v.push_back(e.t == JV::STR ? strtod(e.str.c_str(), nullptr) : e.num);
  return v;
}

// ---------------------------------------------------------------- per-shard report
struct Failure { std::string sig, msg, replay; };

struct Report
{
  std::string prop;
  uint64_t evaluations = 0;
  std::map<std::string, uint64_t> labels;      // class histogram
  std::set<uint64_t> nontrivial;               // hashes of distinct non-trivial cases
  std::vector<std::string> samples;            // JSON fragments
  std::vector<Failure> failures;               // new violations
  std::map<std::string, uint64_t> known;       // known-finding id -> hits
  std::map<std::string, uint64_t> counters;    // misc (excused, skipped, ...)
  size_t max_samples = 6;

  void label(const std::string & l) { labels[l]++; }
  void nt(const std::string & key) { nontrivial.insert(std::hash<std::string>()(key)); }
  void sample(const std::string & js) { if (samples.size() < max_samples) samples.push_back(js); }
  void count(const std::string & k, uint64_t n = 1) { counters[k] += n; }

  void write(const std::string & path) const
  {
    std::ofstream o(path);
    o << "{\"property\":" << jstr(prop) << ",\"evaluations\":" << evaluations << ",\n\"labels\":{";
    bool f = true;
    for (auto & p : labels) { o << (f ? "" : ",") << jstr(p.first) << ":" << p.second; f = false; }
    o << "},\n\"counters\":{"; f = true;
    for (auto & p : counters) { o << (f ? "" : ",") << jstr(p.first) << ":" << p.second; f = false; }
    o << "},\n\"known\":{"; f = true;
    for (auto & p : known) { o << (f ? "" : ",") << jstr(p.first) << ":" << p.second; f = false; }
    o << "},\n\"nontrivial\":["; f = true;
    for (auto h : nontrivial) { o << (f ? "" : ",") << "\"" << std::hex << h << std::dec << "\""; f = false; }
    o << "],\n\"samples\":["; f = true;
    for (auto & s : samples) { o << (f ? "" : ",\n") << s; f = false; }
    o << "],\n\"failures\":["; f = true;
    for (auto & x : failures) {
      o << (f ? "" : ",\n") << "{\"sig\":" << jstr(x.sig) << ",\"msg\":" << jstr(x.msg) << ",\"replay\":" << jstr(x.replay) << "}";
      f = false;
    }
    o << "]}\n";
  }
};

// ---------------------------------------------------------------- known findings
struct Known
{
  struct E { std::string prop, id, pattern; };
  std::vector<E> es;
  void load(const std::string & path)
  { // lines: property \t id \t glob-pattern-on-signature
    std::ifstream f(path); std::string l;
    while (std::getline(f, l)) {
      if (l.empty() || l[0] == '#') continue;
      size_t a = l.find('\t'), b = l.find('\t', a + 1);
      if (a == std::string::npos || b == std::string::npos) continue;
      es.push_back({l.substr(0, a), l.substr(a + 1, b - a - 1), l.substr(b + 1)});
    }
  }
  // returns id of the matching known finding or ""
  std::string match(const std::string & prop, const std::string & sig) const
  {
    for (auto & e : es) if (e.prop == prop && fnmatch(e.pattern.c_str(), sig.c_str(), 0) == 0) return e.id;
    return "";
  }
};

// ---------------------------------------------------------------- command line
struct Args
{
  std::map<std::string, std::string> kv;
  Args(int argc, char ** argv)
  {
    for (int i = 1; i < argc; i++) {
      std::string a = argv[i];
      if (a.rfind("--", 0) == 0) {
        size_t eq = a.find('=');
        if (eq != std::string::npos) kv[a.substr(2, eq - 2)] = a.substr(eq + 1);
        else if (i + 1 < argc && std::string(argv[i + 1]).rfind("--", 0) != 0) { kv[a.substr(2)] = argv[i + 1]; i++; }
        else kv[a.substr(2)] = "1";
      }
    }
  }
  bool has(const std::string & k) const { return kv.count(k) > 0; }
  std::string s(const std::string & k, const std::string & d = "") const { auto it = kv.find(k); return it == kv.end() ? d : it->second; }
  long long i(const std::string & k, long long d) const { auto it = kv.find(k); return it == kv.end() ? d : atoll(it->second.c_str()); }
  double d(const std::string & k, double dd) const { auto it = kv.find(k); return it == kv.end() ? dd : atof(it->second.c_str()); }
};

inline std::string hash_name(const std::string & s)
{
  char b[20]; snprintf(b, sizeof b, "%012llx", (unsigned long long)(std::hash<std::string>()(s) & 0xFFFFFFFFFFFFULL)); return b;
}

inline void silence_stdio(bool out = true, bool err = true)
{
  if (out) { if (!freopen("/dev/null", "w", stdout)) {} }
  if (err) { if (!freopen("/dev/null", "w", stderr)) {} }
}

} // namespace vf
#endif
