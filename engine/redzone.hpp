// redzone.hpp -- AddressSanitizer red zones around the fixed-size spectrum tables of bbpars (C08).
// The tables are reached through a decayed `double *` inside decay0_bb, and they sit in the middle of one object, so neither ASan's heap red zones
// nor UBSan's array-bounds check can see an index one before / one past a table.  A guarded (BXDECAY0_VERIF) layout hook in bb.h puts 16 unused
// bytes before, between and after spthe1/spthe2; the harness poisons them once a generator is initialised and un-poisons them before the object is
// initialised again or destroyed (decay0_generator::_init_ assigns the whole struct).  Without ASan, or with the guard off, this is a no-op.
#ifndef VF_REDZONE_HPP
#define VF_REDZONE_HPP
#include <bxdecay0/bb.h>
#if defined(__SANITIZE_ADDRESS__)
#define VF_ASAN 1
#elif defined(__has_feature)
#if __has_feature(address_sanitizer)
#define VF_ASAN 1
#endif
#endif
#ifdef VF_ASAN
#include <sanitizer/asan_interface.h>
#endif
namespace vf {
inline void redzones(const bxdecay0::bbpars & bp, bool poison)
{
#if defined(VF_ASAN) && defined(BXDECAY0_VERIF)
  const void * z[3] = {bp._verif_redzone0, bp._verif_redzone1, bp._verif_redzone2};
  for (const void * p : z) { if (poison) ASAN_POISON_MEMORY_REGION(p, 2 * sizeof(double)); else ASAN_UNPOISON_MEMORY_REGION(p, 2 * sizeof(double)); }
#else
  (void)bp; (void)poison;
#endif
}
template <class GEN> struct RedzoneGuard
{ // poisons on construction (call after initialize()), un-poisons on destruction (declare AFTER the generator, so that it dies first)
  const GEN & g; explicit RedzoneGuard(const GEN & g_) : g(g_) { redzones(g.get_bb_params(), true); } ~RedzoneGuard() { redzones(g.get_bb_params(), false); }
};
}
#endif
