// fuzz_cdfarray.cc -- C15 (d): load_optimized_cdf_array on arbitrary lines.  Oracle: exception or a finite vector; sanitizers.
#include <bxdecay0/dbd_gA.h>
#include "fuzzcommon.hpp"
#include "fuzzfiles.hpp"
using namespace fz;
extern "C" int LLVMFuzzerTestOneInput(const uint8_t * data, size_t size)
{
  init_once();
  std::string line((const char *)data, size); std::vector<double> v;
  try { bxdecay0::load_optimized_cdf_array(line, v); labels()["parsed"]++; if (v.size() > size + 1) violation("more values than input bytes"); if (!v.empty()) labels()["nonempty"]++; }
  catch (std::exception &) { labels()["exception"]++; }
  return 0;
}
