// fuzzfiles.hpp -- scratch directory handling for file-based fuzz targets
#ifndef FUZZFILES_HPP
#define FUZZFILES_HPP
#include <string>
#include <cstdio>
#include <cstdlib>
#include <unistd.h>
#include <sys/stat.h>
namespace fz {
inline const std::string & scratch()
{
  static std::string d;
  if (d.empty()) {
    const char * base = getenv("VERIF_SCRATCH"); std::string b = base ? base : "/dev/shm";
    d = b + "/vf-fz-" + std::to_string(getpid()); mkdir(d.c_str(), 0700);
    struct stat st; if (stat(d.c_str(), &st) != 0) { d = "./vf-fz-" + std::to_string(getpid()); mkdir(d.c_str(), 0700); }
    static struct Cleaner { std::string p; ~Cleaner() { std::string c = "rm -rf '" + p + "'"; if (system(c.c_str())) {} } } cl{d};
  }
  return d;
}
inline void write_file(const std::string & path, const uint8_t * data, size_t n)
{ FILE * f = fopen(path.c_str(), "wb"); if (!f) abort(); if (n) fwrite(data, 1, n, f); fclose(f); }
inline void mkdirs(const std::string & p) { std::string c = "mkdir -p '" + p + "'"; if (system(c.c_str())) {} }
[[noreturn]] inline void violation(const char * what) { fprintf(stderr, "VERIF-ORACLE-VIOLATION: %s\n", what); dump_labels(); __builtin_trap(); }
}
#endif
