// fuzzcommon.hpp -- shared by the libFuzzer targets: byte-level deviate decoder, label counters dumped at exit
#ifndef FUZZCOMMON_HPP
#define FUZZCOMMON_HPP
#include <cmath>
#include <cstdint>
#include <cstdio>
#include <cstdlib>
#include <map>
#include <string>
#include <fstream>
#include <iostream>
#include <bxdecay0/i_random.h>

namespace fz {
struct Bytes
{
  const uint8_t * d; size_t n, pos = 0;
  Bytes(const uint8_t * data, size_t size) : d(data), n(size) {}
  bool empty() const { return pos >= n; }
  uint8_t u8() { return pos < n ? d[pos++] : 0; }
  uint32_t u32() { uint32_t x = 0; for (int i = 0; i < 4; i++) x = (x << 8) | u8(); return x; }
  int range(int lo, int hi) { return lo + (int)(u8() % (unsigned)(hi - lo + 1)); }
  double unit() { return (u32() + 0.5) / 4294967296.0; }
};
struct Overrun {};
// deviates decoded from bytes: selector + payload; when the input is exhausted a counter-hash stream continues
// (so that rejection loops cannot be starved by the fuzzer) up to a hard budget
struct ByteRandom : public bxdecay0::i_random
{
  Bytes * b; size_t count = 0, limit; uint64_t h = 0x243F6A8885A308D3ULL;
  explicit ByteRandom(Bytes & bytes, size_t lim = 20000) : b(&bytes), limit(lim) {}
  static double clamp(double x) { return x < 1e-12 ? 1e-12 : (x > 1 - 1e-12 ? 1 - 1e-12 : x); }
  double operator()() override
  {
    if (++count > limit) throw Overrun();
    if (b->empty()) { h += 0x9E3779B97F4A7C15ULL; uint64_t z = h; z = (z ^ (z >> 30)) * 0xBF58476D1CE4E5B9ULL; z = (z ^ (z >> 27)) * 0x94D049BB133111EBULL; z ^= z >> 31; return clamp((double)(z >> 11) / 9007199254740992.0); }
    uint8_t sel = b->u8();
    if (sel < 160) return clamp(b->unit());
    if (sel < 200) return clamp(std::pow(10.0, -12.0 * b->u8() / 255.0));
    if (sel < 240) return clamp(1.0 - std::pow(10.0, -12.0 * b->u8() / 255.0));
    return clamp(b->u8() / 255.0 + (b->u8() - 128) * 1e-9); // coarse grid +- jitter (hits round thresholds)
  }
};
inline std::map<std::string, uint64_t> & labels() { static auto * m = new std::map<std::string, uint64_t>; return *m; } // leaked on purpose: used from atexit
inline void dump_labels()
{
  const char * p = getenv("VERIF_FUZZ_STATS"); if (!p) return;
  std::ofstream o(p); o << "{"; bool f = true;
  for (auto & kv : labels()) { o << (f ? "" : ",") << "\"" << kv.first << "\":" << kv.second; f = false; }
  o << "}\n";
}
inline void init_once()
{
  // libFuzzer leaves through _Exit: dump the counters periodically instead of relying on atexit
  static uint64_t calls = 0; if ((++calls & 1023) == 0) dump_labels();
  static bool done = false; if (done) return; done = true;
  atexit(dump_labels);
  static std::ofstream devnull("/dev/null");
  if (!getenv("VERIF_VERBOSE")) { std::cerr.rdbuf(devnull.rdbuf()); std::clog.rdbuf(devnull.rdbuf()); std::cout.rdbuf(devnull.rdbuf()); }
}
} // namespace fz
#endif
