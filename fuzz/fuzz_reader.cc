// fuzz_reader.cc -- C15 (a): event_reader on 1..3 adversarial files.
// Oracle: std::exception is fine; otherwise every loaded event satisfies event::is_valid() and the drain terminates.
#include <bxdecay0/event_reader.h>
#include "fuzzcommon.hpp"
#include "fuzzfiles.hpp"
using namespace fz;
extern "C" int LLVMFuzzerTestOneInput(const uint8_t * data, size_t size)
{
  init_once();
  if (size < 3) return 0;
  int start = data[0] % 8, max = data[1] % 8, nfiles = 1 + data[2] % 3; bool zero = data[2] & 64;
  data += 3; size -= 3;
  std::vector<std::string> files; size_t pos = 0;
  for (int f = 0; f < nfiles; f++) {
    size_t len = (f == nfiles - 1) ? size - pos : (size - pos) / (nfiles - f);
    // cut at a 0xFF byte if there is one (lets the fuzzer choose the partition)
    for (size_t k = pos; k < size && f < nfiles - 1; k++) if (data[k] == 0xFF) { len = k - pos; break; }
    std::string p = scratch() + "/r" + std::to_string(f) + ".d0t"; write_file(p, data + pos, len); files.push_back(p);
    pos += len; if (pos < size && data[pos] == 0xFF) pos++;
  }
  bxdecay0::event_reader::config_type cfg; cfg.event_files = files; cfg.start_event = start; cfg.max_nb_events = max; cfg.zero_event_time = zero;
  try {
    bxdecay0::event_reader rd(0);
    if ((nfiles + start + max) % 3 == 0) {
      // a reader object that first met a configuration it could not apply (an empty file followed by a missing one): it must refuse it cleanly and
      // then serve the input under test like a new object
      std::string ws = scratch() + "/ws-only.d0t"; const char * blanks = "  \n\n"; write_file(ws, (const uint8_t *)blanks, 4);
      bxdecay0::event_reader::config_type bad; bad.event_files = {ws, scratch() + "/does-not-exist.d0t"};
      try { rd.set_configuration(bad); violation("event_reader accepted a configuration that names a missing file (reuse-after-failed-configuration)"); } catch (std::exception &) { labels()["refused_missing_file_first"]++; }
      if (rd.is_configured()) violation("event_reader is_configured() after a refused configuration (reuse-after-failed-configuration)");
    }
    rd.set_configuration(cfg);
    labels()["configured"]++;
    size_t loads = 0, bound = size + 8;
    while (rd.has_next_event()) {
      bxdecay0::event ev; rd.load_next_event(ev);
      if (!ev.is_valid()) violation("event_reader delivered an event that fails event::is_valid()");
      labels()["loaded_event"]++;
      if (++loads > bound) violation("event_reader delivers more events than the input has bytes (no progress)");
    }
    if (loads) labels()["drained_with_events"]++;
  } catch (std::exception &) { labels()["exception"]++; }
  return 0;
}
