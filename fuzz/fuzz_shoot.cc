// fuzz_shoot.cc -- C08: structure-aware libFuzzer target over the generation paths.
// bytes -> (category, name, level, mode, window, event-reuse pattern, optional MDL operation, tape); initialise, shoot 1..8 events.
// Oracle: ASan / UBSan / _GLIBCXX_ASSERTIONS (the library is built with them); documented rejections are fine.
#include <memory>
#include <vector>
#include <bxdecay0/decay0_generator.h>
#include <bxdecay0/mdl_event_op.h>
#include <bxdecay0/bb_utils.h>
#include "fuzzcommon.hpp"
#include "../engine/redzone.hpp"
#include "../checks/catalog.hpp"

using namespace fz;
typedef bxdecay0::decay0_generator G;

static bool cheap_mode(int m) { return m == 1 || m == 2 || m == 3 || m == 7 || m == 9 || m == 10 || m == 11 || m == 12 || m == 17 || m == 18 || m == 20; }

extern "C" int LLVMFuzzerTestOneInput(const uint8_t * data, size_t size)
{
  init_once();
  if (size < 8) return 0;
  Bytes b(data, size);
  static const std::vector<std::string> bkg = catalog::background_published(), dbd = catalog::dbd_published();
  G g; ByteRandom rnd(b);
  bool is_bkg = b.u8() & 1;
  std::string name;
  try {
    if (is_bkg) { name = bkg[b.u8() % bkg.size()]; g.set_decay_category(G::DECAY_CATEGORY_BACKGROUND); g.set_decay_isotope(name); }
    else {
      name = dbd[b.u8() % dbd.size()];
      int level = b.range(0, 17) % 18; if (b.u8() < 160) level = 0;
      int mode = b.range(1, 20); int tries = 0;
      uint8_t heavy = b.u8();
      // modes whose initialisation integrates a spectrum cost ~0.1 s under ASan: keep them to 1 input in 16
      while (!cheap_mode(mode) && (heavy & 15) != 0 && tries++ < 20) mode = 1 + (mode % 20);
      g.set_decay_category(G::DECAY_CATEGORY_DBD); g.set_decay_isotope(name); g.set_decay_dbd_level(level); g.set_decay_dbd_mode((bxdecay0::dbd_mode_type)mode);
      if (b.u8() & 1) { double a = b.u8() / 64.0, w = (1 + b.u8()) / 64.0; g.set_decay_dbd_esum_range(a, a + w); }
      labels()["dbd_mode_" + std::to_string(mode)]++;
    }
    uint8_t mdl = b.u8();
    if (mdl & 1) {
      auto op = std::make_shared<bxdecay0::momentum_direction_lock_event_op>();
      static const bxdecay0::particle_code codes[] = {bxdecay0::INVALID_PARTICLE, bxdecay0::GAMMA, bxdecay0::ELECTRON, bxdecay0::POSITRON, bxdecay0::ALPHA};
      bxdecay0::particle_code code = codes[b.u8() % 5]; int rank = b.range(0, 6) - 1;
      double phi = b.unit() * 2 * M_PI, theta = b.unit() * M_PI, ap = b.unit() * M_PI * 0.999, ap2 = 0.01 + b.unit() * 1.5;
      if (mdl & 2) op->set_with_aperture_rectangular_cut(code, rank, phi, theta, 0.01 + ap * 0.49, ap2, false);
      else op->set(code, rank, phi, theta, ap, (mdl & 4) != 0);
      g.add_operation(op); labels()["with_mdl"]++;
    }
    g.initialize(rnd);
  } catch (Overrun &) { labels()["init_overrun"]++; return 0; }
  catch (std::exception &) { labels()["rejected"]++; return 0; }
  labels()[is_bkg ? "accepted_bkg" : "accepted_dbd"]++;
  vf::RedzoneGuard<G> rz(g); // ASan red zones around the generator's spectrum tables while it shoots (engine/redzone.hpp)
  int nshots = 1 + b.u8() % 8; uint8_t reuse = b.u8();
  bxdecay0::event ev;
  if (reuse & 1) { // pre-filled event with junk particles and large capacity
    bxdecay0::particle p; p.set_code(bxdecay0::GAMMA); p.set_time(1.0); p.set_momentum(1, 2, 3);
    for (int i = 0; i < (reuse >> 2); i++) ev.add_particle(p);
    labels()["prefilled_event"]++;
  }
  try {
    for (int k = 0; k < nshots; k++) {
      if (reuse & 2) { bxdecay0::event fresh; g.shoot(rnd, fresh); if (!fresh.get_particles().empty()) labels()["shot"]++; }
      else { g.shoot(rnd, ev); if ((reuse & 4) && k == 1) ev.grab_particles().shrink_to_fit(); labels()["shot"]++; }
    }
  } catch (Overrun &) { labels()["shoot_overrun"]++; }
  catch (std::logic_error &) { labels()["shoot_logic_error"]++; }
  catch (std::exception &) { labels()["shoot_exception"]++; }
  return 0;
}
