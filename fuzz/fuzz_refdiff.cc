// fuzz_refdiff.cc -- C01, coverage-guided: bytes -> (reference background nuclide, deviate tape); the port and the Fortran
// reference are driven from the same tape inside the target; the coverage feedback comes from the instrumented nuclide files
// of the library, so the fuzzer climbs into deep level schemes.  Oracle = the same comparison, constants rule and knife-edge
// rule as the random driver (checks/refdiff.cc).
#define REFDIFF_NO_MAIN
#include "../checks/refdiff.cc"
#include "fuzzcommon.hpp"
#include "fuzzfiles.hpp"

static std::vector<Config> g_cfgs; static int g_inited = -1;
extern "C" int LLVMFuzzerInitialize(int *, char ***)
{
  fz::init_once();
  if (!freopen("/dev/null", "w", stdout)) {}
  g_cfgs = c01_configs();
  return 0;
}
extern "C" int LLVMFuzzerTestOneInput(const uint8_t * data, size_t size)
{
  fz::init_once();
  if (size < 2) return 0;
  fz::Bytes b(data, size);
  int ci = b.u8() % g_cfgs.size(); const Config & c = g_cfgs[ci];
  if (g_inited != ci) { init_bkg(c); g_inited = ci; }
  // decode the whole input into deviates up front (both sides read the same materialised tape); beyond it: counter hash
  Tape tape; tape.seed = 0x5EED + ci; { fz::ByteRandom dec(b, 1 << 20); while (!b.empty() && tape.v.size() < 4000) tape.v.push_back(dec()); }
  Outcome o = run_event(c, nullptr, tape);
  fz::labels()[std::string("nuclide_") + c.refname]++;
  if (o.skip || o.ok) return 0;
  if (o.cls != "exception" && !knife_edge_robust(c, nullptr, tape, 12345)) { fz::labels()["excused_knife_edge"]++; return 0; }
  std::string msg = "port differs from the Fortran reference: " + c.name + " " + o.cls + " " + o.msg;
  fz::violation(msg.c_str());
}
