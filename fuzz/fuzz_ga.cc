// fuzz_ga.cc -- C15 (b,c): the dbd_gA p.d.f. loader (mode byte even) and o.c.d.f. loader (odd), followed, when loading
// succeeds, by 32 shots of the matching sampler on a tape decoded from the input tail.
// Oracle: std::exception is fine; otherwise sampled energies are finite, non-negative, with e1+e2 <= esum_max; no hang.
#include <sstream>
#include <bxdecay0/dbd_gA.h>
#include "fuzzcommon.hpp"
#include "fuzzfiles.hpp"
using namespace fz;
static std::string g_base;
extern "C" int LLVMFuzzerInitialize(int *, char ***)
{
  g_base = scratch(); mkdirs(g_base + "/data/dbd_gA/v1.0/Test/g0");
  setenv("BXDECAY0_DBD_GA_DATA_DIR", g_base.c_str(), 1);
  return 0;
}
// header as the loader sees it: first two non-blank, non-comment lines: "<esum_max>" and "<label> <e_min> <e_max> <step> <n>"
static void header(const uint8_t * d, size_t n, double & esum, double & emin, double & emax)
{
  std::string s((const char *)d, n); std::istringstream in(s); std::string l; int k = 0; esum = emin = emax = -1;
  while (std::getline(in, l)) {
    std::istringstream li(l); std::string w; li >> w; if (w.empty() || w[0] == '#') continue;
    if (k == 0) { esum = atof(w.c_str()); k++; } else { li >> emin >> emax; return; }
  }
}
extern "C" int LLVMFuzzerTestOneInput(const uint8_t * data, size_t size)
{
  init_once();
  if (size < 2) return 0;
  bool cdf = data[0] & 1; size_t tail = data[1] % 64; data += 2; size -= 2; if (tail > size) tail = size;
  size_t flen = size - tail;
  write_file(g_base + "/data/dbd_gA/v1.0/Test/g0/" + (cdf ? "tab_ocdf.data" : "tab_pdf.data"), data, flen);
  double esum, emin, emax; header(data, flen, esum, emin, emax);
  // p.d.f. sampler: rejection keeps e1+e2 < esum_max; c.d.f. sampler: cell corners are at most e_min+e_max apart from 0
  double bound = cdf ? emin + emax : esum;
  bxdecay0::dbd_gA g;
  try {
    g.set_nuclide("Test"); g.set_process(bxdecay0::dbd_gA::PROCESS_G0);
    g.set_shooting(cdf ? bxdecay0::dbd_gA::SHOOTING_INVERSE_TRANSFORM_METHOD : bxdecay0::dbd_gA::SHOOTING_REJECTION);
    g.initialize();
  } catch (std::exception &) { labels()[cdf ? "cdf_rejected" : "pdf_rejected"]++; return 0; }
  labels()[cdf ? "cdf_loaded" : "pdf_loaded"]++;
  // what was loaded must satisfy the loader's own predicate (finite, non-negative probabilities, a positive finite maximum, a finite ordered energy
  // range) - observed through the public print() / plot_interpolated_pdf(): a table holding 'nan' or 'inf' is a garbage load
  {
    std::ostringstream po; g.print(po, "", "");
    std::istringstream pi(po.str()); std::string l;
    while (std::getline(pi, l)) {
      size_t eq = l.find(" = "); if (eq == std::string::npos) continue;
      bool is_pmax = l.find("Prob(max)") != std::string::npos, is_e = l.find("(min)") != std::string::npos || l.find("(max) =") != std::string::npos || l.find("esum(max)") != std::string::npos;
      if (!is_pmax && !is_e) continue;
      double v = strtod(l.c_str() + eq + 3, nullptr);
      if (!std::isfinite(v)) violation("dbd_gA accepted a data set with a non-finite table parameter (print() reports it)");
      if (is_pmax && !(v > 0)) violation("dbd_gA accepted a p.d.f. table whose maximum is not positive");
    }
    if (!cdf) {
      std::ostringstream qo;
      try { g.plot_interpolated_pdf(qo, 7); } catch (std::exception &) { qo.str(""); }
      std::istringstream qi(qo.str()); double x, y, pr;
      while (qi >> x >> y) {
        std::string w; if (!(qi >> w)) break; pr = strtod(w.c_str(), nullptr);
        if (!std::isfinite(pr) || w.find("nan") != std::string::npos || w.find("inf") != std::string::npos) violation("dbd_gA accepted a p.d.f. table that interpolates to a non-finite density");
        if (pr < -1e-9) violation("dbd_gA accepted a p.d.f. table that interpolates to a negative density");
      }
    }
  }
  Bytes b(data + flen, tail); ByteRandom rnd(b, 30000);
  try {
    for (int k = 0; k < 32; k++) {
      double e1, e2; g.shoot_e1_e2(rnd, e1, e2);
      if (!(std::isfinite(e1) && std::isfinite(e2))) violation("dbd_gA sampler returned a non-finite energy from a data set it accepted");
      if (e1 < 0 || e2 < 0) violation("dbd_gA sampler returned a negative energy from a data set it accepted");
      if (e1 + e2 > bound * (1 + 1e-9) + 1e-12) violation("dbd_gA sampler returned e1+e2 above what the accepted data set allows");
      labels()["sampled"]++;
    }
  } catch (Overrun &) {
    // the inverse-transform sampler draws exactly two deviates per pair: running out of 30000 would be a loop.  The rejection sampler's
    // efficiency is (mean p.d.f.)/(maximum x area) and can be arbitrarily small for a table the loader's own predicate accepts (a single
    // non-zero node, a corrupted E_max of 200000 MeV with an end point of 3 MeV): slow is not "does not terminate", and a deviate budget
    // cannot tell them apart - counted, not reported
    if (cdf) violation("dbd_gA inverse-transform sampler does not terminate (30000 deviates for 32 pairs) on a data set it accepted");
    labels()["pdf_rejection_too_slow_to_decide"]++;
  }
  catch (std::exception &) { labels()["sample_exception"]++; }
  return 0;
}
