// fuzz_catalog.cc -- C15 (e): the three catalogue list parsers through the guarded re-entry hook.
// Oracle: exception, or entries that are non-empty tokens without blanks / modes with id>0, non-empty label; no hang.
#include <set>
#include <sstream>
#include <map>
#include <bxdecay0/bb_utils.h>
#include "fuzzcommon.hpp"
#include "fuzzfiles.hpp"
namespace bxdecay0 { namespace verif {
  std::set<std::string> reparse_dbd_isotopes(); std::set<std::string> reparse_background_isotopes(); std::map<dbd_mode_type, dbd_record> reparse_dbd_modes();
} }
using namespace fz;
static std::string g_base;
extern "C" int LLVMFuzzerInitialize(int *, char ***)
{
  g_base = scratch(); mkdirs(g_base + "/description");
  setenv("BXDECAY0_RESOURCE_DIR", g_base.c_str(), 1);
  const char * z = ""; write_file(g_base + "/description/dbd_isotopes.lis", (const uint8_t *)z, 0); write_file(g_base + "/description/background_isotopes.lis", (const uint8_t *)z, 0); write_file(g_base + "/description/dbd_modes.lis", (const uint8_t *)z, 0);
  return 0;
}
static void check_names(const std::set<std::string> & s)
{
  for (auto & n : s) { if (n.empty()) violation("catalogue parser produced an empty name"); for (char c : n) if (isspace((unsigned char)c)) violation("catalogue parser produced a name containing white space"); if (n[0] == '#') violation("catalogue parser produced a comment as a name"); }
}
// reference reading of a name list: one entry per line = its first white-space separated word, unless the line is blank or the word starts with '#'
// (whatever the line terminator, and whether or not the last line ends with one)
static std::set<std::string> ref_names(const uint8_t * d, size_t n)
{
  std::set<std::string> out; std::string text((const char *)d, n); size_t pos = 0;
  while (pos <= text.size()) {
    size_t e = text.find('\n', pos); if (e == std::string::npos) e = text.size();
    std::istringstream is(text.substr(pos, e - pos)); std::string w; is >> w;
    if (!w.empty() && w[0] != '#') out.insert(w);
    pos = e + 1;
  }
  return out;
}
static void same_names(const std::set<std::string> & got, const std::set<std::string> & want)
{
  for (auto & n : want) if (!got.count(n)) violation("catalogue list parser dropped an entry of the file");
  for (auto & n : got) if (!want.count(n)) violation("catalogue list parser produced an entry the file does not hold");
}
extern "C" int LLVMFuzzerTestOneInput(const uint8_t * data, size_t size)
{
  init_once();
  if (size < 1) return 0;
  int which = data[0] % 3; data++; size--;
  static const char * fn[] = {"dbd_isotopes.lis", "background_isotopes.lis", "dbd_modes.lis"};
  write_file(g_base + "/description/" + fn[which], data, size);
  try {
    if (which == 0) { auto s = bxdecay0::verif::reparse_dbd_isotopes(); check_names(s); same_names(s, ref_names(data, size)); labels()["dbd_list_parsed"]++; if (!s.empty()) labels()["dbd_list_nonempty"]++; }
    else if (which == 1) { auto s = bxdecay0::verif::reparse_background_isotopes(); check_names(s); same_names(s, ref_names(data, size)); labels()["bkg_list_parsed"]++; if (!s.empty()) labels()["bkg_list_nonempty"]++; }
    else {
      auto m = bxdecay0::verif::reparse_dbd_modes(); labels()["modes_parsed"]++; if (!m.empty()) labels()["modes_nonempty"]++;
      for (auto & kv : m) { if ((int)kv.first <= 0) violation("mode table entry with id <= 0"); if (kv.second.unique_label.empty()) violation("mode table entry with empty label"); if (kv.second.dbd_mode != kv.first) violation("mode table key differs from record id");
        // the loader's own predicate on the columns: mode id inside the published range, legacy column 'not applicable' or a legacy Decay0 mode
        if ((int)kv.first < (int)bxdecay0::DBDMODE_MIN || (int)kv.first > (int)bxdecay0::DBDMODE_MAX) violation("mode table entry with an id outside DBDMODE_MIN..DBDMODE_MAX");
        int lm = (int)kv.second.legacy_modebb;
        if (!(lm == (int)bxdecay0::LEGACY_MODEBB_NA || lm == (int)bxdecay0::LEGACY_MODEBB_UNDEF || (lm >= 1 && lm <= (int)bxdecay0::LEGACY_MODEBB_MAX))) violation("mode table entry whose legacy-mode column is neither 'not applicable' nor a legacy Decay0 mode (1..20)"); }
    }
  } catch (std::exception &) { labels()["exception"]++; }
  return 0;
}
