#!/bin/bash
# Build /repo with the hook guard OFF (plain gcc build, tests enabled) and run the repository's own test-suite.
set -e
cd "$(dirname "$0")"
./build.sh off
cd build/off
BXDECAY0_RESOURCE_DIR=${VERIF_REPO:-/repo}/resources ctest -j8 --timeout 900
